#!/bin/bash
# neutral4: behaviour-preserving refactors; every property whose units read a touched file is checked
cd /verif
declare -A P=( [n01]="C03" [n02]="C04 C06" [n03]="C03 C04 C06 C07 C20" [n04]="C01 C02 C03 C04 C06 C07 C15 C19 C20" [n05]="C03" [n06]="C03 C13" [n07]="C03 C04 C06 C07 C20" [n08]="C01 C02 C03 C04 C06 C07 C15 C19 C20" [n09]="C03 C13" [n10]="C04 C06" [n11]="C01 C02 C20" [n12]="C01 C02 C20" [n13]="C03 C13" [n14]="C03 C06 C14 C19 C20" [n15]="C09" [n16]="C11" [n17]="C06" [n18]="C04 C06" [n19]="C09" [n20]="C11" [n21]="C04" [n22]="C03 C04 C06 C07 C11 C13" [n23]="C17" [n24]="C09" [n25]="C07 C15" [n26]="C11" [n27]="C01 C02 C03 C04 C06 C07 C15 C19 C20" [n28]="C06" [n29]="C04 C06" [n30]="C03" [n31]="C03 C04 C06 C07 C20" [n32]="C09" [n33]="C01 C17" [n34]="C03 C04" [n35]="C06 C07" [n36]="C09" [n37]="C04 C06" [n38]="C03" [n39]="C01 C02 C03 C04 C06 C07 C15 C19 C20" [n40]="C09" )
for n in $(ls /verif/neutral4 | grep '^n[0-9]'); do
  for p in ${P[$n]}; do
    r=$(tools/try_mutant.sh /verif/neutral4/$n/patch.diff $p 2>&1 | grep -E "VIOLATION|UNDECIDED|undecided:|check rc" | tr '\n' ' ')
    echo "$n $p :: $r"
  done
done
