#!/bin/bash
# neutral5: behaviour-preserving refactors; every property whose units read a touched file is checked
cd /verif
declare -A P=( [n01]="C16" [n02]="C16" [n03]="C16" [n04]="C16" [n05]="C16" [n06]="C16" [n07]="C16" [n08]="C16" [n09]="C16" [n10]="C02" [n11]="C02" [n12]="C02" [n13]="C01 C02 C20" [n14]="C02" [n15]="C03 C06 C14 C19 C20" [n16]="C03 C06 C14 C19 C20" )
for n in $(ls /verif/neutral5 | grep '^n[0-9]'); do
  for p in ${P[$n]}; do
    r=$(tools/try_mutant.sh /verif/neutral5/$n/patch.diff $p 2>&1 | grep -E "VIOLATION|UNDECIDED|undecided:|check rc" | tr '\n' ' ')
    echo "$n $p :: $r"
  done
done
