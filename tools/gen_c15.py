#!/usr/bin/env python3
"""Generates contracts/c15_layout.toml (harness text with literal obligation names) from the layout table below,
which is transcribed from util/gen-types/schemas/{blockchain,extensions}.mol."""
import os
ROOT = os.path.dirname(os.path.dirname(os.path.abspath(__file__)))
B, X = 'util/gen-types/src/generated/blockchain.rs', 'util/gen-types/src/generated/extensions.rs'
structs = [
 ('c15_out_point', 'OutPointReader', B, [('tx_hash', 32), ('index', 4)]),
 ('c15_cell_input', 'CellInputReader', B, [('since', 8), ('previous_output', 36)]),
 ('c15_cell_dep', 'CellDepReader', B, [('out_point', 36), ('dep_type', 1)]),
 ('c15_raw_header', 'RawHeaderReader', B, [('version', 4), ('compact_target', 4), ('timestamp', 8), ('number', 8), ('epoch', 8), ('parent_hash', 32), ('transactions_root', 32), ('proposals_hash', 32), ('extra_hash', 32), ('dao', 32)]),
 ('c15_header', 'HeaderReader', B, [('raw', 192), ('nonce', 16)]),
 ('c15_header_digest', 'HeaderDigestReader', X, [('children_hash', 32), ('total_difficulty', 32), ('start_number', 8), ('end_number', 8), ('start_epoch', 8), ('end_epoch', 8), ('start_timestamp', 8), ('end_timestamp', 8), ('start_compact_target', 4), ('end_compact_target', 4)]),
 ('c15_epoch_ext', 'EpochExtReader', X, [('previous_epoch_hash_rate', 32), ('last_block_hash_in_previous_epoch', 32), ('compact_target', 4), ('number', 8), ('base_block_reward', 8), ('remainder_reward', 8), ('start_number', 8), ('length', 8)]),
 ('c15_transaction_key', 'TransactionKeyReader', X, [('block_hash', 32), ('index', 4)]),
 ('c15_number_hash', 'NumberHashReader', X, [('number', 8), ('block_hash', 32)]),
 ('c15_transaction_info', 'TransactionInfoReader', X, [('block_number', 8), ('block_epoch', 8), ('key', 36)]),
]
arrays = [('c15_uint32', 'Uint32Reader', 4), ('c15_uint64', 'Uint64Reader', 8), ('c15_uint128', 'Uint128Reader', 16),
          ('c15_byte32', 'Byte32Reader', 32), ('c15_uint256', 'Uint256Reader', 32), ('c15_proposal_short_id', 'ProposalShortIdReader', 10)]
mod, harness, functions = [], [], []
mod.append('''
use crate::packed::*;
use crate::prelude::*;
use molecule::prelude::Reader;
''')
for h, r, f, fields in structs:
    total = sum(s for _, s in fields)
    functions.append('  { file = "%s", path = "impl molecule::prelude::Reader<\'r> for %s<\'r>::fn verify" },' % (f, r))
    for fn_, _ in fields:
        functions.append('  { file = "%s", path = "impl %s<\'r>::fn %s" },' % (f, r, fn_))
    body = ['#[cfg_attr(kani, kani::proof)]', '#[cfg_attr(not(kani), test)]', 'fn %s() {' % h,
            '    let buf: [u8; %d] = vsrc::any();' % (total + 1), '    let len: usize = vsrc::any();', '    vsrc::assume(len <= %d);' % (total + 1),
            '    let slice = &buf[..len];',
            '    assert!(%s::verify(slice, false).is_ok() == (len == %d), "C15.layout.%s.verify_iff_total_size");' % (r, total, r),
            '    assert!(%s::verify(slice, true).is_ok() == (len == %d), "C15.layout.%s.compatible_verify_iff_total_size");' % (r, total, r),
            '    assert!(%s::from_slice(slice).is_ok() == (len == %d), "C15.layout.%s.from_slice_iff_total_size");' % (r, total, r),
            '    if len == %d {' % total, '        let r = %s::new_unchecked(slice);' % r, '        let base = slice.as_ptr() as usize;']
    obs = ['C15.layout.%s.verify_iff_total_size: strict verify accepts exactly %d bytes' % (r, total),
           'C15.layout.%s.compatible_verify_iff_total_size: compatible verify accepts exactly %d bytes' % (r, total),
           'C15.layout.%s.from_slice_iff_total_size: from_slice accepts exactly %d bytes' % (r, total)]
    off = 0
    for fn_, sz in fields:
        body.append('        { let f = r.%s(); let fs = f.as_slice(); assert!(fs.len() == %d && fs.as_ptr() as usize == base + %d, "C15.layout.%s.field_%s_at_schema_offset"); }' % (fn_, sz, off, r, fn_))
        obs.append('C15.layout.%s.field_%s_at_schema_offset: %s() is bytes [%d, %d) of the input' % (r, fn_, fn_, off, off + sz))
        off += sz
    body.append('        assert!(r.as_slice().len() == %d && r.as_slice().as_ptr() as usize == base, "C15.layout.%s.as_slice_is_input");' % (total, r))
    obs.append('C15.layout.%s.as_slice_is_input: as_slice() is the whole input (fields tile it: sizes add up to %d)' % (r, total))
    body += ['    }', '    #[cfg(kani)]', '    kani::cover!(len == %d, "reach:%s");' % (total, h), '}', '']
    mod.append('\n'.join(body))
    harness.append((h, r, obs))
for h, r, total in arrays:
    functions.append('  { file = "%s", path = "impl molecule::prelude::Reader<\'r> for %s<\'r>::fn verify" },' % (B, r))
    body = ['#[cfg_attr(kani, kani::proof)]', '#[cfg_attr(not(kani), test)]', 'fn %s() {' % h,
            '    let buf: [u8; %d] = vsrc::any();' % (total + 1), '    let len: usize = vsrc::any();', '    vsrc::assume(len <= %d);' % (total + 1),
            '    let slice = &buf[..len];',
            '    assert!(%s::verify(slice, false).is_ok() == (len == %d), "C15.layout.%s.verify_iff_total_size");' % (r, total, r),
            '    assert!(%s::verify(slice, true).is_ok() == (len == %d), "C15.layout.%s.compatible_verify_iff_total_size");' % (r, total, r),
            '    if len == %d { let r = %s::new_unchecked(slice); assert!(r.raw_data().len() == %d && r.raw_data().as_ptr() == slice.as_ptr(), "C15.layout.%s.raw_data_is_input"); }' % (total, r, total, r),
            '    #[cfg(kani)]', '    kani::cover!(len == %d, "reach:%s");' % (total, h), '}', '']
    mod.append('\n'.join(body))
    harness.append((h, r, ['C15.layout.%s.verify_iff_total_size: strict verify accepts exactly %d bytes' % (r, total),
                           'C15.layout.%s.compatible_verify_iff_total_size: compatible verify accepts exactly %d bytes' % (r, total),
                           'C15.layout.%s.raw_data_is_input: raw_data() is the input' % r]))
mod.append('''#[cfg_attr(kani, kani::proof)]
#[cfg_attr(not(kani), test)]
fn c15_unpack_le() {
    let b4: [u8; 4] = vsrc::any();
    let b8: [u8; 8] = vsrc::any();
    let b16: [u8; 16] = vsrc::any();
    let v4: u32 = Uint32Reader::new_unchecked(&b4[..]).unpack();
    let v8: u64 = Uint64Reader::new_unchecked(&b8[..]).unpack();
    let v16: u128 = Uint128Reader::new_unchecked(&b16[..]).unpack();
    assert!(v4 == u32::from_le_bytes(b4), "C15.unpack.uint32_le");
    assert!(v8 == u64::from_le_bytes(b8), "C15.unpack.uint64_le");
    assert!(v16 == u128::from_le_bytes(b16), "C15.unpack.uint128_le");
    assert!(v4 == (b4[0] as u32) | ((b4[1] as u32) << 8) | ((b4[2] as u32) << 16) | ((b4[3] as u32) << 24), "C15.unpack.uint32_bytes");
    #[cfg(kani)]
    kani::cover!(true, "reach:c15_unpack_le");
}
''')
harness.append(('c15_unpack_le', 'Unpack for UintNReader', ['C15.unpack.uint32_le: Uint32Reader::unpack is from_le_bytes', 'C15.unpack.uint64_le: Uint64Reader::unpack is from_le_bytes',
                'C15.unpack.uint128_le: Uint128Reader::unpack is from_le_bytes', 'C15.unpack.uint32_bytes: byte i has weight 256^i']))
for t_ in ('u32', 'u64', 'u128'):
    functions.append('  { file = "util/gen-types/src/conversion/primitive.rs", path = "impl Unpack<%s> for packed::Uint%sReader<\'r>::fn unpack" },' % (t_, t_[1:]))

# ---- owned entities: accessors of the fixed-size structs (second unit, c15_entity) ----
emod, eharness, efunctions = ['''
use crate::packed::*;
use crate::prelude::*;
use molecule::bytes::Bytes;
'''], [], []
for h, r, f, fields in structs:
    e = r[:-len('Reader')]
    total = sum(s for _, s in fields)
    for fn_, _ in fields:
        efunctions.append('  { file = "%s", path = "impl %s::fn %s" },' % (f, e, fn_))
    efunctions.append('  { file = "%s", path = "impl %s::fn as_reader" },' % (f, e))
    hn = h.replace('c15_', 'c15e_')
    body = ['#[cfg_attr(kani, kani::proof)]', '#[cfg_attr(not(kani), test)]', 'fn %s() {' % hn,
            '    let buf: [u8; %d] = vsrc::any();' % total,
            "    let sbuf: &'static [u8] = Box::leak(Box::new(buf));",
            '    let ent = %s::new_unchecked(Bytes::from_static(sbuf));' % e]
    obs = []
    off = 0
    for fn_, sz in fields:
        body.append('    { let f = ent.%s(); let fs = f.as_slice(); assert!(fs.len() == %d && fs == &buf[%d..%d], "C15.entity.%s.field_%s_is_schema_bytes"); }' % (fn_, sz, off, off + sz, e, fn_))
        obs.append('C15.entity.%s.field_%s_is_schema_bytes: %s() holds bytes [%d, %d) of the entity' % (e, fn_, fn_, off, off + sz))
        off += sz
    body.append('    assert!(ent.as_slice() == &buf[..] && ent.as_reader().as_slice() == &buf[..], "C15.entity.%s.as_slice_and_reader_are_the_bytes");' % e)
    obs.append('C15.entity.%s.as_slice_and_reader_are_the_bytes: as_slice() and as_reader() expose exactly the constructed bytes' % e)
    body += ['    #[cfg(kani)]', '    kani::cover!(true, "reach:%s");' % hn, '}', '']
    emod.append('\n'.join(body))
    eharness.append((hn, e, obs))
ehead = '''# GENERATED by tools/gen_c15.py -- edit the generator, not this file
unit   = "c15_entity"
engine = "kani-overlay"
serves = ["C15"]
tier   = "quick"
crate  = "ckb-gen-types"
claim  = "owned fixed-size molecule entities: every field accessor returns exactly the bytes the schema assigns to that field, and as_slice()/as_reader() expose the constructed bytes (so reading an entity field by field and rebuilding reproduces the bytes)"
modfile = "util/gen-types/src/__verif_c15_entity.rs"
moddecl = { file = "util/gen-types/src/lib.rs", text = "mod __verif_c15_entity;" }
mem_gb = 24

trusted = [
  "Kani/CBMC bit-precise semantics of the compiled ckb-gen-types crate and of the bytes crate (Bytes::from_static / Bytes::slice, real code, unmodified); the entity is built over a leaked static buffer, so the reference-counted Bytes vtables are not exercised (with them one 36-byte harness needed > 18 GB in CBMC) -- the accessor code under contract is the same for every Bytes representation",
  "the expected field order and sizes are transcribed from the molecule schemas util/gen-types/schemas/{blockchain,extensions}.mol",
  "all byte values symbolic at the exact total size; loop-free => complete",
]

functions = [
%s
]

module_text = \'\'\'
%s
\'\'\'

''' % ('\n'.join(efunctions), '\n'.join(emod))
etail = []
for h, r, obs in eharness:
    etail.append('[[harness]]\nname = "%s"\nfunction = "%s"\nobligations = [\n%s\n]\n' % (h, r, '\n'.join('  "%s",' % o for o in obs)))
open(os.path.join(ROOT, 'contracts', 'c15_entity.toml'), 'w').write(ehead + '\n'.join(etail))
head = '''# GENERATED by tools/gen_c15.py -- edit the generator, not this file
unit   = "c15_layout"
engine = "kani-overlay"
serves = ["C15", "C16"]
tier   = "quick"
crate  = "ckb-gen-types"
claim  = "fixed-size molecule layouts are decoded exactly canonically: Reader::verify accepts a byte string iff its length is the struct's total size, and the field accessors return consecutive, non-overlapping sub-slices in schema order that cover the input (so accepted bytes ARE the canonical encoding of the decoded value); integer readers unpack little-endian"
modfile = "util/gen-types/src/__verif_c15_layout.rs"
moddecl = { file = "util/gen-types/src/lib.rs", text = "mod __verif_c15_layout;" }
mem_gb = 24

trusted = [
  "Kani/CBMC bit-precise semantics of the compiled ckb-gen-types crate (real generated Reader::verify and accessors, real conversion::primitive Unpack impls, unmodified)",
  "the expected field order and sizes are transcribed from the molecule schemas util/gen-types/schemas/{blockchain,extensions}.mol (the specification of the wire format)",
  "byte strings of every length from 0 to TOTAL_SIZE+1 with all byte values symbolic; loop-free => complete",
]

functions = [
%s
]

module_text = \'\'\'
%s
\'\'\'

''' % ('\n'.join(functions), '\n'.join(mod))
tail = []
for h, r, obs in harness:
    tail.append('[[harness]]\nname = "%s"\nfunction = "%s"\nobligations = [\n%s\n]\n' % (h, r, '\n'.join('  "%s",' % o for o in obs)))
open(os.path.join(ROOT, 'contracts', 'c15_layout.toml'), 'w').write(head + '\n'.join(tail))
print('written')
