#!/usr/bin/env python3
"""Regenerates MANIFEST.json from claims.json (hand-maintained claim texts) -- keeps the manifest valid at all times."""
import json, os
ROOT = os.path.dirname(os.path.dirname(os.path.abspath(__file__)))
claims = json.load(open(os.path.join(ROOT, 'claims.json')))
props = [json.loads(l)['id'] for l in open(os.path.join(ROOT, 'properties.jsonl'))]
checks, na = [], []
for pid in props:
    c = claims.get(pid, {})
    if c.get('claimed'):
        checks.append({
            'property_id': pid,
            'quick_cmd': './check %s --tier quick' % pid,
            'thorough_cmd': './check %s --tier thorough' % pid,
            'evidence_file': 'evidence/%s.json' % pid,
            'replay_cmd_template': './check %s --replay {path}' % pid,
            'engine': c.get('engine', 'verus'),
            'level_claimed': {'category': 'proof', 'text': c['text'], 'design_ref': c.get('design_ref', 'DESIGN.md §5 ' + pid)},
            'level_note': c['note'],
            'technique': c['technique'],
        })
    else:
        na.append({'property_id': pid, 'reason': c.get('reason', 'not yet built')})
m = {
    'version': 1,
    'setup_cmd': './check units > /dev/null',
    'hooks': {'guard': 'none', 'enable': 'no hooks: contracts are spliced into a per-run extraction / scratch copy of the current /repo tree, nothing is compiled into ckb itself',
              'baseline_off_cmd': 'cd /repo && cargo test --workspace --no-fail-fast --offline', 'source_commits': [], 'add_only': True},
    'engines': [
        {'name': 'verus', 'path': 'vlib/assemble_verus.py', 'serves_properties': [p for p in props if claims.get(p, {}).get('claimed') and 'verus' in claims[p].get('engine', 'verus')],
         'kind_free_text': 'deductive verifier (SMT, unbounded): real function bodies extracted mechanically on every run + contracts from contracts/*.toml'},
        {'name': 'kani', 'path': 'vlib/kani_units.py', 'serves_properties': [p for p in props if claims.get(p, {}).get('claimed') and 'kani' in claims[p].get('engine', '')],
         'kind_free_text': 'Kani/CBMC function contracts and loop-free full-domain harnesses injected into a scratch copy of the workspace'},
    ],
    'checks': checks,
    'not_applicable': na,
    'notes': 'Technique family: contract-based deductive verification of the real code. Exit 0 = every ledger obligation regenerated and discharged; exit 1 = a ledger obligation refuted (VIOLATION line); exit 2 = undecided (lost anchor, tool limit) and never an alarm. See DESIGN.md.',
}
json.dump(m, open(os.path.join(ROOT, 'MANIFEST.json'), 'w'), indent=1)
print('checks:', [c['property_id'] for c in checks], 'n/a:', len(na))
