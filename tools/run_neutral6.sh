#!/bin/bash
# neutral6: hand-written behaviour-preserving refactors on the units added last; every property whose units read a touched file is checked
cd /verif
declare -A P=( [n01]="C01 C02 C08 C20" [n02]="C01 C02 C08 C20" [n03]="C01 C02 C08 C20" [n04]="C01 C02 C08 C20" [n05]="C03 C06 C14 C19 C20" [n06]="C03 C06 C14 C19 C20" [n07]="C03" [n08]="C05" [n09]="C08" [n10]="C08" [n11]="C12" [n12]="C18" [n13]="C10 C14" [n14]="C16" [n15]="C16" [n16]="C16" )
for n in $(ls /verif/neutral6 | grep '^n[0-9]'); do
  for p in ${P[$n]}; do
    r=$(tools/try_mutant.sh /verif/neutral6/$n/patch.diff $p 2>&1 | grep -E "VIOLATION|UNDECIDED|undecided:|check rc" | tr '\n' ' ')
    echo "$n $p :: $r"
  done
done
