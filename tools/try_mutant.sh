#!/bin/bash
# usage: try_mutant.sh <patch.diff> <Cxx> [tier]   -- applies the patch to /repo, runs the check, always restores /repo
P=$(realpath "$1"); PID=$2; TIER=${3:-quick}
cd /verif
[ -z "$(git -C /repo status --porcelain)" ] || { echo "/repo not clean"; exit 9; }
git -C /repo apply "$P" || { echo "patch does not apply"; exit 9; }
./check $PID --tier $TIER; rc=$?
git -C /repo checkout -- . ; git -C /repo clean -fdq; git -C /verif checkout -- evidence 2>/dev/null
echo "check rc=$rc"
exit $rc
