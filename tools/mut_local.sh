#!/bin/bash
# usage: mut_local.sh <Cxx> <unit[,unit]> <file> <python-regex-from> <to>   -- one-off hand mutation on a scratch copy of /repo's sources
# (development aid: validates that a contract rejects a deliberate break; /repo itself is never touched)
set -u
M=/tmp/mrepo_$$
rsync -a --exclude target --exclude .git /repo/ $M/
python3 - "$M/$3" "$4" "$5" <<'PY'
import re,sys
p,frm,to=sys.argv[1:4]
s=open(p).read()
n=len(re.findall(frm,s))
if n!=1: print('pattern matches',n,'times'); sys.exit(3)
open(p,'w').write(re.sub(frm,lambda m:to,s))
PY
[ $? -eq 0 ] || { rm -rf $M; exit 3; }
cd /verif
cp evidence/$1.json /tmp/ev_$$.json
VERIF_REPO=$M VERIF_NO_WITNESS=1 ./check $1 --units $2 2>&1 | grep -v "^    \|^$" | tail -6
cp /tmp/ev_$$.json evidence/$1.json; rm -rf $M /tmp/ev_$$.json
