#!/usr/bin/env python3
"""keep_mutant.py <seed_id> <mutant_dir> <property> <caught: yes|no|undecided> <detected_by or ''> -- copies patch/demo/README into seeded/<id>/ and writes meta.json"""
import json, os, shutil, sys
ROOT = os.path.dirname(os.path.dirname(os.path.abspath(__file__)))
sid, src, prop, caught, by = sys.argv[1:6]
extra = sys.argv[6] if len(sys.argv) > 6 else ''
d = os.path.join(ROOT, 'seeded', sid)
os.makedirs(d, exist_ok=True)
for f in ('patch.diff', 'demo.diff', 'README.md'):
    shutil.copy(os.path.join(src, f), os.path.join(d, f))
readme = open(os.path.join(src, 'README.md')).read()
def section(title):
    import re
    m = re.search(r'^##+ .*%s.*?\n(.*?)(?=^##+ |\Z)' % title, readme, re.S | re.M | re.I)
    return m.group(1).strip() if m else ''
logs = {}
for l in ('.demo_without.log', '.demo_with.log', '.tests_with.log'):
    p = os.path.join(src, l)
    if os.path.exists(p):
        t = open(p).read()
        logs[l] = [x for x in t.split('\n') if x.startswith('test result') or 'FAILED' in x or 'panicked' in x][:6]
meta = {
    'seed_id': sid, 'property': prop,
    'what': readme.split('\n')[0].lstrip('# ').strip(),
    'needs_to_manifest': section('needed') or section('manifest'),
    'origin': 'independent sub-agent given only the property record and a scratch worktree',
    'confirmed_by_me': {
        'procedure': 'tools/confirm_mutant.sh in a scratch worktree at /repo main: demo passes without patch, demo fails with patch, existing crate tests pass with patch',
        'logs': logs,
    },
    'check_result': {'caught': caught, 'by': by, 'note': extra},
}
json.dump(meta, open(os.path.join(d, 'meta.json'), 'w'), indent=1)
print('kept', d)
