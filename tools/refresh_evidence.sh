#!/bin/bash
# re-run every claimed check on the (clean) /repo tree so that the committed evidence files come from passing runs
cd /verif
[ -z "$(git -C /repo status --porcelain)" ] || { echo "/repo not clean"; exit 9; }
rc=0
for p in $(python3 -c "import json;print(' '.join(c['property_id'] for c in json.load(open('MANIFEST.json'))['checks']))"); do
  ./check $p --tier ${1:-quick} > /tmp/refresh_$p.log 2>&1; r=$?
  echo "$p rc=$r $(tail -1 /tmp/refresh_$p.log)"
  [ $r -eq 0 ] || rc=1
done
python3-vt - <<'PY'
import json,jsonschema,glob
s=json.load(open('/root/.vp/EVIDENCE.schema.json'))
for f in sorted(glob.glob('/verif/evidence/*.json')):
    d=json.load(open(f)); jsonschema.validate(d,s)
    assert d['coverage']['obligations']==d['coverage']['discharged'], f   # proof level: every counted obligation discharged (open known findings are listed separately, not counted)
print('evidence files valid')
PY
exit $rc
