#!/bin/bash
# third batch of behaviour-preserving refactors (functions brought under contract in the third pass)
cd /verif
declare -A P=( [n01]=C04 [n02]="C04 C06" [n03]=C04 [n04]=C04 [n05]=C04 [n06]=C04 [n07]=C04 [n08]=C04 [n09]=C04 [n10]=C04 [n11]=C04 [n12]="C03 C13" [n13]="C03 C13" [n14]=C03 [n15]=C03 [n16]="C06 C03" [n17]=C06 [n18]=C06 [n19]=C06 [n20]="C07 C15" [n21]=C19 [n22]=C19 [n23]=C20 [n24]=C20 [n25]=C10 [n26]=C10 [n27]=C10 [n28]=C10 [n29]=C10 [n30]="C06 C04" )
for n in $(ls /verif/neutral3 | grep '^n[0-9]'); do
  for p in ${P[$n]}; do
    r=$(tools/try_mutant.sh /verif/neutral3/$n/patch.diff $p 2>&1 | grep -E "VIOLATION|UNDECIDED|undecided:|check rc" | tr '\n' ' ')
    echo "$n $p :: $r"
  done
done
