#!/bin/bash
# second batch of behaviour-preserving refactors (functions brought under contract later in the build round)
cd /verif
declare -A P=( [n01]=C04 [n02]=C04 [n03]=C04 [n04]=C04 [n05]=C04 [n06]=C04 [n07]=C11 [n08]=C20 [n09]=C20 [n10]=C20 [n11]=C06 [n12]=C06 [n13]=C06 [n14]=C06 [n15]="C13 C06" [n16]="C13 C06" [n17]=C10 [n18]=C10 [n19]=C03 [n20]=C03 [n21]="C03 C20" [n22]="C03 C20" [n23]=C13 [n24]=C13 )
for n in $(ls /verif/neutral2 | grep '^n[0-9]'); do
  for p in ${P[$n]}; do
    r=$(tools/try_mutant.sh /verif/neutral2/$n/patch.diff $p 2>&1 | grep -E "VIOLATION|UNDECIDED|undecided:|check rc" | tr '\n' ' ')
    echo "$n $p :: $r"
  done
done
