#!/usr/bin/env python3
"""Rewrites the generated tables of DESIGN.md section 9 (between <!-- BEGIN x --> / <!-- END x --> markers)."""
import json, glob, os, re, tomllib
ROOT = os.path.dirname(os.path.dirname(os.path.abspath(__file__)))
rows = []
for p in sorted(glob.glob(os.path.join(ROOT, 'contracts', '*.toml'))):
    u = tomllib.load(open(p, 'rb'))
    lp = os.path.join(ROOT, 'ledger', u['unit'] + '.json')
    n = len(json.load(open(lp))['obligations']) if os.path.exists(lp) else 0
    rows.append('| `%s` | %s / %s | %s | %d | %s |' % (u['unit'], 'Verus' if u['engine'] == 'verus' else 'Kani', u.get('tier', 'quick'), ','.join(u['serves']), n, u.get('claim', '').replace('|', '/')))
units = '| unit | engine / tier | serves | ledger obligations | claim |\n|---|---|---|---|---|\n' + '\n'.join(rows)
srows, caught, total = [], 0, 0
per = {}
for d in sorted(glob.glob(os.path.join(ROOT, 'seeded', '*', 'meta.json'))):
    m = json.load(open(d))
    total += 1
    c = m['check_result']['caught']
    per.setdefault(m['property'], [0, 0])
    per[m['property']][1] += 1
    if c == 'yes':
        caught += 1
        per[m['property']][0] += 1
    srows.append('| `%s` | %s | %s | %s | %s |' % (m['seed_id'], m['property'], m['what'][:110].replace('|', '/'), c, ((m['check_result']['by'] or '') + (' -- ' if m['check_result']['by'] and m['check_result'].get('note') else '') + (m['check_result'].get('note') or ''))[:260].replace('|', '/')))
seeded = ('%d seeded changes kept, %d caught (exit 1 with a named obligation): ' % (total, caught) + ', '.join('%s %d/%d' % (k, v[0], v[1]) for k, v in sorted(per.items())) + '.\n\n'
          '| seed | property | change | caught | by / why not |\n|---|---|---|---|---|\n' + '\n'.join(srows))
# status per property (claims.json + evidence + seeds)
claims = json.load(open(os.path.join(ROOT, 'claims.json')))
strows = []
for pid in sorted(claims):
    c = claims[pid]
    if c.get('claimed'):
        ev = os.path.join(ROOT, 'evidence', pid + '.json')
        ob = json.load(open(ev))['coverage']['obligations'] if os.path.exists(ev) else 0
        serving = sorted(tomllib.load(open(q, 'rb'))['unit'] for q in glob.glob(os.path.join(ROOT, 'contracts', '*.toml')) if pid in tomllib.load(open(q, 'rb')).get('serves', []))
        sc = per.get(pid, [0, 0])
        strows.append('| %s | claimed (%s) | %s | %d | %d/%d | %s |' % (pid, c.get('engine', ''), ', '.join('`%s`' % s for s in serving), ob, sc[0], sc[1], c['text'][:330].replace('|', '/') + ('...' if len(c['text']) > 330 else '')))
    else:
        strows.append('| %s | not applicable | -- | -- | -- | %s |' % (pid, c.get('reason', '')[:330].replace('|', '/')))
status = ('| id | state | units that serve it | obligations discharged per run (incl. dependency units) | seeded changes caught | what is decided (start of the claim text; full text in MANIFEST.json) |\n|---|---|---|---|---|---|\n' + '\n'.join(strows))
p = os.path.join(ROOT, 'DESIGN.md')
t = open(p).read()
for name, text in (('UNITS', units), ('SEEDED', seeded), ('STATUS', status)):
    a, b = '<!-- BEGIN %s -->' % name, '<!-- END %s -->' % name
    if a in t:
        t = t[:t.index(a) + len(a)] + '\n' + text + '\n' + t[t.index(b):]
open(p, 'w').write(t)
print('units', len(rows), 'seeded', total, 'caught', caught)
