#!/bin/bash
# Re-run every kept seeded mutant and every neutral (behaviour-preserving) patch against the current machinery,
# in K parallel runners.  Each runner has its own scratch worktree of /repo (outside /repo and /verif), its own
# copy of /verif and its own scratch directory, so /repo and /verif/evidence are never touched.
# usage: tools/rerun_all.sh [K] [seeded|neutral|all] ["neutral4 neutral5"]     results: /var/tmp/mut/rerun/results.txt
K=${1:-3}; WHAT=${2:-all}; BATCHES=${3:-"neutral neutral2 neutral3 neutral4 neutral5 neutral6"}
OUT=/var/tmp/mut/rerun; rm -rf $OUT; mkdir -p $OUT
JOBS=$OUT/jobs.txt; : > $JOBS
if [ "$WHAT" != neutral ]; then
  for d in /verif/seeded/*/; do
    id=$(basename $d); p=$(python3 -c "import json;print(json.load(open('$d/meta.json'))['property'])")
    c=$(python3 -c "import json;print(json.load(open('$d/meta.json'))['check_result']['caught'])")
    echo "seeded $id $p $c $d/patch.diff" >> $JOBS
  done
fi
if [ "$WHAT" != seeded ]; then
  for b in $BATCHES; do
    sc=/verif/tools/run_${b}.sh
    # the property lists live in the batch scripts: declare -A P=( [n01]=C04 [n02]="C04 C06" .. )
    python3 - "$sc" "$b" >> $JOBS <<'E'
import re,sys
t=open(sys.argv[1]).read(); b=sys.argv[2]
for m in re.finditer(r'\[(n\d+)\]=(?:"([^"]*)"|(\S+))', t):
    for p in (m.group(2) or m.group(3)).split():
        print(f"neutral {b}/{m.group(1)} {p} no /verif/{b}/{m.group(1)}/patch.diff")
E
  done
fi
runner() {
  k=$1; WT=/var/tmp/wt_rr$k; VC=/var/tmp/vcopy_rr$k; SC=/var/tmp/scr_rr$k
  git -C /repo worktree remove --force $WT 2>/dev/null; rm -rf $WT $VC $SC
  git -C /repo worktree add --detach $WT HEAD -q || exit 9
  mkdir -p $SC; rsync -a --exclude .git /verif/ $VC/
  awk -v k=$k -v K=$K 'NR%K==k%K' $JOBS | while read kind id prop caught patch; do
    git -C $WT apply $patch 2>/dev/null || { echo "$kind $id $prop expected=$caught :: PATCH-DOES-NOT-APPLY" >> $OUT/results.$k; continue; }
    r=$(cd $VC && VERIF_REPO=$WT VERIF_SCRATCH=$SC ./check $prop --tier quick 2>&1 | grep -E "^VIOLATION|^UNDECIDED|undecided:|^OK" | tr '\n' ' ')
    # an empty verdict means the check itself did not finish (seen twice under heavy load): run it once more and keep its tail
    if [ -z "$r" ]; then r=$(cd $VC && VERIF_REPO=$WT VERIF_SCRATCH=$SC ./check $prop --tier quick 2>&1 | tee $OUT/retry.$k.log | grep -E "^VIOLATION|^UNDECIDED|undecided:|^OK" | tr '\n' ' '); [ -z "$r" ] && r="NO-VERDICT $(tail -2 $OUT/retry.$k.log | tr '\n' ' ')"; fi
    git -C $WT checkout -- . ; git -C $WT clean -fdq
    echo "$kind $id $prop expected=$caught :: $r" >> $OUT/results.$k
  done
  git -C /repo worktree remove --force $WT; rm -rf $WT $VC $SC
}
for k in $(seq 1 $K); do runner $k & done; wait
cat $OUT/results.* | sort > $OUT/results.txt
echo "--- disagreements ---"
python3 - $OUT/results.txt <<'E'
import sys
bad=0
for l in open(sys.argv[1]):
    head, _, res = l.partition(' :: ')
    kind, id_, prop, exp = head.split(); exp = exp.split('=')[1]
    got = 'yes' if 'VIOLATION' in res else ('undecided' if 'UNDECIDED' in res else ('no' if res.startswith('OK') or ' OK ' in ' '+res else '?'))
    if kind == 'neutral':
        if got == 'yes': print('FALSE ALARM', l.strip()); bad += 1
        elif got != 'no': print('neutral undecided', l.strip())
    else:
        e = {'yes': 'yes', 'no': 'no'}.get(exp, exp)
        if got != e and not (e.startswith('undecided') and got == 'undecided'):
            print('seeded differs', l.strip()); bad += 1
print('disagreements:', bad)
E
