#!/bin/bash
# neutral7: 30 behaviour-preserving refactors (independent sub-agent) on the functions brought under contract in the fifth pass
cd /verif
declare -A P=( [n01]="C14 C12" [n02]="C14 C12" [n03]="C12" [n04]="C12" [n05]="C12" [n06]="C12" [n07]="C12" [n08]="C12" [n09]="C12" [n10]="C12" [n11]="C12" [n12]="C12" [n13]="C12" [n14]="C12" [n15]="C12" [n16]="C11" [n17]="C11" [n18]="C18" [n19]="C18" [n20]="C18" [n21]="C17" [n22]="C17" [n23]="C17" [n24]="C17" [n25]="C17" [n26]="C17" [n27]="C17" [n28]="C17" [n29]="C01 C12" [n30]="C01 C12" )
for n in $(ls /verif/neutral7 | grep '^n[0-9]'); do
  for p in ${P[$n]}; do
    r=$(tools/try_mutant.sh /verif/neutral7/$n/patch.diff $p 2>&1 | grep -E "VIOLATION|UNDECIDED|undecided:|check rc" | cut -c1-200 | tr '\n' ' ')
    echo "$n $p :: $r"
  done
done
