#!/usr/bin/env python3
"""Generates contracts/c15_dyn.toml: one contract per molecule reader of the three schemas whose layout is dynamic (table,
dynamic vector, option, union).  The acceptance predicate of every type is derived from the .mol SCHEMAS (which are the
specification); the generated `verify` bodies it is proved about are extracted from /repo on every run as usual.

The schema files are read from /repo at generation time, and the generated TOML embeds their sha256: the unit refuses to run
(undecided) when the schemas changed since it was generated -- regenerate with this tool."""
import hashlib
import os
import re
import sys
ROOT = os.path.dirname(os.path.dirname(os.path.abspath(__file__)))
REPO = os.environ.get('VERIF_REPO', '/repo')
SCHEMAS = ['blockchain', 'extensions', 'protocols']


def parse(text):
    text = re.sub(r'/\*.*?\*/', '', text, flags=re.S)
    text = re.sub(r'//[^\n]*', '', text)
    decls = []
    for m in re.finditer(r'\b(array|vector|option|struct|table|union)\s+(\w+)\s*(\[[^\]]*\]|<[^>]*>|\([^)]*\)|\{[^}]*\})\s*;?', text):
        kind, name, body = m.group(1), m.group(2), m.group(3)[1:-1].strip()
        if kind == 'array':
            t, n = [x.strip() for x in body.split(';')]
            decls.append((kind, name, (t, int(n))))
        elif kind in ('vector', 'option'):
            decls.append((kind, name, body))
        elif kind in ('struct', 'table'):
            fields = []
            for f in body.split(','):
                f = f.strip()
                if f:
                    fn, ft = [x.strip() for x in f.split(':')]
                    fields.append((fn, ft))
            decls.append((kind, name, fields))
        else:
            items = []
            nxt = 0
            for f in body.split(','):
                f = f.strip()
                if f:
                    if ':' in f:
                        nm, i = [x.strip() for x in f.split(':')]
                        nxt = int(i)
                    else:
                        nm = f
                    items.append((nm, nxt))
                    nxt += 1
            decls.append((kind, name, items))
    return decls


def main():
    types = {}      # name -> (kind, payload, schema file)
    order = []
    digest = hashlib.sha256()
    for sname in SCHEMAS:
        p = os.path.join(REPO, 'util/gen-types/schemas', sname + '.mol')
        t = open(p).read()
        digest.update(t.encode())
        for kind, name, payload in parse(t):
            types[name] = (kind, payload, sname + '.rs')
            order.append(name)

    size = {'byte': 1}

    def fixed_size(n):
        """byte size of a fixed-size type, None for a dynamic one"""
        if n in size:
            return size[n]
        kind, payload, _f = types[n]
        r = None
        if kind == 'array':
            r = fixed_size(payload[0]) * payload[1]
        elif kind == 'struct':
            r = sum(fixed_size(ft) for _fn, ft in payload)
        size[n] = r
        return r

    def klass(n):
        if n == 'byte':
            return 'fixed'
        kind, payload, _f = types[n]
        if kind in ('array', 'struct'):
            return 'fixed'
        if kind == 'vector':
            return 'fixvec' if fixed_size(payload) is not None else 'dynvec'
        return kind

    def ok(n, s):
        """the acceptance predicate of type n applied to the Seq<u8> expression s"""
        if klass(n) == 'fixed':
            return '(%s).len() == %d' % (s, fixed_size(n))
        return 'ok_%s(%s, c)' % (n, s)

    def reader(n):
        return 'ByteReader' if n == 'byte' else n + 'Reader'

    specs = []
    items = []
    dyn = [n for n in order if klass(n) in ('table', 'dynvec', 'option', 'union')]
    if os.environ.get('ONLY'):
        dyn = [n for n in dyn if n in os.environ['ONLY'].split(',')]
    need = set()
    for n in dyn:
        kind, payload, _f = types[n]
        k = klass(n)
        if k == 'table':
            need.update(ft for _fn, ft in payload)
        elif k == 'union':
            need.update(nm for nm, _i in payload)
        else:
            need.add(payload)
    src = {f: open(os.path.join(REPO, 'util/gen-types/src/generated', f)).read() for f in set(t[2] for t in types.values())}

    # spec predicates
    for n in order:
        kind, payload, _f = types[n]
        k = klass(n)
        if k == 'fixvec':
            specs.append('pub open spec fn ok_%s(s: Seq<u8>, c: bool) -> bool { s.len() >= 4 && s.len() == 4 + %d * num_at(s, 0) }' % (n, fixed_size(payload)))
        elif k == 'option':
            specs.append('pub open spec fn ok_%s(s: Seq<u8>, c: bool) -> bool { s.len() == 0 || %s }' % (n, ok(payload, 's')))
        elif k == 'union':
            arms = ' '.join('(num_at(s, 0) == %d && %s) ||' % (i, ok(nm, 's.subrange(4, s.len() as int)')) for nm, i in payload)
            specs.append('pub open spec fn ok_%s(s: Seq<u8>, c: bool) -> bool { s.len() >= 4 && (%s false) }' % (n, arms))
        elif k == 'table' and not payload:
            # a table without fields: the generated reader only looks at the total size (and, strictly, wants nothing after it)
            specs.append('pub open spec fn ok_%s(s: Seq<u8>, c: bool) -> bool { s.len() >= 4 && num_at(s, 0) == s.len() && (c || s.len() == 4) }' % n)
        elif k == 'table':
            fl = ' '.join('&& %s' % ok(ft, 's.subrange(offs(s, %d), offs(s, %d))' % (i, i + 1)) for i, (_fn, ft) in enumerate(payload))
            specs.append('pub open spec fn ok_%s(s: Seq<u8>, c: bool) -> bool { table_header_ok(s, %d, c) %s }' % (n, len(payload), fl))
        elif k == 'dynvec':
            specs.append('pub open spec fn ok_%s(s: Seq<u8>, c: bool) -> bool { dynvec_header_ok(s) && forall|i: int| 0 <= i < item_count(s) ==> %s }'
                         % (n, ok(payload, 's.subrange(#[trigger] offs(s, i), offs(s, i + 1))')))

    def struct_item(n, f):
        return '''
[[item]]
file = "util/gen-types/src/generated/%s"
path = "struct %sReader"
derive = []''' % (f, n)

    ABSTR_VE = '''
  [[item.abstract]]
  whole_call = "ve!"
  all = true
  as = "verif_ve()"'''
    declared = set()
    # callee readers whose verify is proved elsewhere (fixed-size: c15_fixed_verify, fixed-item vectors: c15_fixvec)
    for n in sorted(need):
        k = klass(n)
        if k in ('fixed', 'fixvec'):
            if n == 'byte':
                continue     # ByteReader comes with the molecule crate: declared in the prelude
            f = types[n][2]
            items.append(struct_item(n, f))
            declared.add(n)
            items.append('''
[[item]]
file = "util/gen-types/src/generated/%s"
path = "impl molecule::prelude::Reader<'r> for %sReader<'r>::fn verify"
assumed = true
proved_in = "%s"
result = "r"
ensures = ["C15.dyn.%s.callee: (r is Ok) == (%s)"]''' % (f, n, 'c15_fixed_verify' if k == 'fixed' else 'c15_fixvec', n,
                                                         ok(n, 'slice@') if k == 'fixed' else 'ok_%s(slice@, true)' % n))
    for n in dyn:
        kind, payload, f = types[n]
        k = klass(n)
        if n not in declared:
            items.append(struct_item(n, f))
        nimpl = len(re.findall(r"^impl<'r> %sReader<'r> \{" % n, src[f], flags=re.M))
        idx = '#0' if nimpl > 1 else ''
        head = '''
[[item]]
file = "util/gen-types/src/generated/%s"
path = "impl molecule::prelude::Reader<'r> for %sReader<'r>::fn verify"
result = "r"
ensures = ["C15.dyn.%s.decoding_accepts_exactly_the_well_formed_encodings_of_the_schema: (r is Ok) == ok_%s(slice@, compatible)"]''' % (f, n, n, n)
        if k == 'option':
            items.append(head + '''
  [[item.proof]]
  at = "start"
  text = "assert(slice@.subrange(0, slice@.len() as int) =~= slice@);"''')
        elif k == 'union':
            items.append(head + ABSTR_VE)
        elif k == 'table' and not payload:
            c = 'VERIF_%s_FIELD_COUNT' % n.upper()
            items.append('''
[[item]]
file = "util/gen-types/src/generated/%s"
path = "impl %sReader<'r>%s::const FIELD_COUNT"
hoist_as = "%s"''' % (f, n, idx, c))
            items.append(head + ABSTR_VE)
        elif k == 'table':
            c = 'VERIF_%s_FIELD_COUNT' % n.upper()
            items.append('''
[[item]]
file = "util/gen-types/src/generated/%s"
path = "impl %sReader<'r>%s::const FIELD_COUNT"
hoist_as = "%s"''' % (f, n, idx, c))
            items.append(head + ABSTR_VE + '''
  [[item.abstract]]
  expr = "Self::FIELD_COUNT"
  all = true
  as = "%s"
  [[item.abstract]]
  let = "mut offsets"
  as = "verif_offsets(slice, offset_first)"
  [[item.abstract]]
  expr = "offsets.windows(2).any(|i| i[0] > i[1])"
  as = "verif_any_descending(&offsets)"
  [[item.proof]]
  after = "offsets.push(total_size);"
  text = "lemma_offsets(slice@, offsets@);"
  [[item.proof]]
  after_if = "if offsets.windows(2).any(|i| i[0] > i[1])"
  text = "lemma_monotone(slice@, offsets@); assert(offsets@.len() >= %d); assert(offsets@[offsets@.len() - 1] == slice@.len()); %s assert(offsets@[%d] <= offsets@[offsets@.len() - 1]);"''' % (c, len(payload) + 1, ' '.join('assert(offsets@[%d] <= offsets@[%d]);' % (q, q + 1) for q in range(len(payload))), len(payload)))
        elif k == 'dynvec':
            items.append(head + ABSTR_VE + '''
  [[item.abstract]]
  let = "mut offsets"
  as = "verif_offsets(slice, offset_first)"
  [[item.abstract]]
  expr = "offsets.windows(2).any(|i| i[0] > i[1])"
  as = "verif_any_descending(&offsets)"
  [[item.abstract]]
  expr = "offsets.windows(2)"
  n = 1
  as = "verif_windows2(&offsets)"
  [[item.proof]]
  after = "offsets.push(total_size);"
  text = "lemma_offsets(slice@, offsets@);"
  [[item.proof]]
  before = "for pair in"
  text = "lemma_monotone(slice@, offsets@);"
  [[item.proof]]
  before = "%s::verify(&slice[start..end], compatible)?;"
  text = "let k = it.index@ as int; assert(pair@ == offsets@.subrange(k, k + 2)); assert(start == offsets@[k] && end == offsets@[k + 1]); assert(start == offs(slice@, k) && end == offs(slice@, k + 1));"
  [[item.loop]]
  k = 0
  iter = "it"
  invariant = ["C15.dyn.%s.loop.items_so_far_are_well_formed: it.seq().len() == offsets@.len() - 1 && (forall|i: int| 0 <= i < it.seq().len() ==> (#[trigger] it.seq()[i])@ == offsets@.subrange(i, i + 2)) && dynvec_header_ok(slice@) && offsets@.len() == item_count(slice@) + 1 && (forall|i: int| 0 <= i < offsets@.len() ==> offsets@[i] == #[trigger] offs(slice@, i)) && (forall|i: int, j: int| 0 <= i <= j < offsets@.len() ==> offsets@[i] <= offsets@[j]) && offsets@[offsets@.len() - 1] == slice@.len() && (forall|i: int| 0 <= i < it.index@ ==> %s)"]''' % (reader(payload), n, ok(payload, 'slice@.subrange(#[trigger] offs(slice@, i), offs(slice@, i + 1))').replace(', c)', ', compatible)')))

    names = {k_: [n for n in dyn if klass(n) == k_] for k_ in ('table', 'dynvec', 'option', 'union')}
    head = '''# GENERATED by tools/gen_c15_dyn.py from the three .mol schemas -- edit the generator, not this file
unit   = "c15_dyn"
engine = "verus"
serves = ["C15", "C16"]
tier   = "quick"
rlimit = 80
canary_only = ["for ScriptReader<", "for BytesVecReader<", "for ScriptOptReader<", "for RelayMessageReader<", "for InIBDReader<"]
claim  = "decoding accepts exactly the well-formed encodings of the schema, for every byte string of every length (no bound) and without any out-of-range slice access or arithmetic overflow: for each of the %d tables, %d dynamic vectors, %d options and %d unions of blockchain.mol, extensions.mol and protocols.mol, the generated Reader::verify returns Ok iff the bytes satisfy the acceptance predicate derived from the schema -- total size field equal to the length, offset table 4-aligned, at least 8, inside the bytes and non-decreasing, exactly the schema's field count (at least that many in compatible mode), every field / item / option payload / union arm (selected by the 4-byte item id) being the sub-slice between consecutive offsets and itself accepted by its own type's predicate; so a byte string accepted by strict decoding is laid out field by field as the canonical encoding is, with the fields tiling the body"
prelude = ["opaque_iter.rs"]
uses_outside = []
schema_sha256 = "%s"

trusted = [
  "ASSUMED: molecule::unpack_number reads the first four bytes little-endian (num_at; its own behaviour: Kani unit c15_layout, harness c15_unpack_le); NUMBER_SIZE = 4; usize is 64 bits; molecule's ByteReader::verify accepts exactly one byte",
  "ASSUMED (std iterator chains, replaced text pinned by hash): `slice[4..offset_first].chunks_exact(4).map(|x| unpack_number(x) as usize).collect()` is the vector of the little-endian numbers at 4, 8, .. below offset_first; `offsets.windows(2).any(|i| i[0] > i[1])` is true iff some adjacent pair descends; `offsets.windows(2)` yields the adjacent pairs in order",
  "TRANSFORMATION 20: the associated const FIELD_COUNT of each table reader is hoisted to a free const (same text, new name) and `Self::FIELD_COUNT` redirected to it",
  "abstracted (transformation 15): every `ve!(Self, ..)` error constructor (molecule's verification_error! macro) as an opaque Err value",
  "the acceptance predicates are generated from the .mol schema files (tools/gen_c15_dyn.py); the Reader::verify of the fixed-size structs / arrays and of the fixed-item vectors are the contracts proved in units c15_fixed_verify and c15_fixvec",
  "VACUITY GUARD: the contracts have no preconditions, so an inconsistency could only sit in the shared prelude; the `ensures false` canary is run on one reader per kind (table Script, empty table InIBD, dynamic vector BytesVec, option ScriptOpt, union RelayMessage), not on all 92",
  "NOT DECIDED here: the accessors of the readers and entities, builders (encode), JSON, hashes",
]

prelude_text = \'\'\'
global size_of usize == 8;
#[verifier::external_body] pub struct VerificationError { _x: u64 }
pub mod numlem {
    use vstd::prelude::*;
    // the little-endian number at position p; opaque to the solver except through the two lemmas below
    #[verifier::opaque] pub open spec fn num_at(s: Seq<u8>, p: int) -> int { s[p] as int + 256 * (s[p + 1] as int) + 65536 * (s[p + 2] as int) + 16777216 * (s[p + 3] as int) }
    pub broadcast proof fn lemma_num_at_range(s: Seq<u8>, p: int) ensures 0 <= #[trigger] num_at(s, p) < 0x1_0000_0000 { reveal(num_at); }
    pub broadcast proof fn lemma_num_at_sub(s: Seq<u8>, a: int, b: int) requires 0 <= a, a + 4 <= b <= s.len() ensures #[trigger] num_at(s.subrange(a, b), 0) == num_at(s, a) { reveal(num_at); }
}
pub use numlem::num_at;
broadcast use {numlem::lemma_num_at_range, numlem::lemma_num_at_sub};
pub struct ByteReader<'r>(pub &'r [u8]);
pub mod molecule {
    use super::*;
    pub const NUMBER_SIZE: usize = 4;
    pub type Number = u32;
    pub mod verification_error {}
    pub mod error { pub type VerificationResult<T> = Result<T, super::super::VerificationError>; }
    #[verifier::external_body] pub fn unpack_number(slice: &[u8]) -> (r: u32) requires slice@.len() >= 4 ensures r as int == num_at(slice@, 0) { unimplemented!() }
    pub mod prelude { pub trait Reader<'r> { fn verify(slice: &[u8], compatible: bool) -> Result<(), super::super::VerificationError>; } }
}
impl<'r> molecule::prelude::Reader<'r> for ByteReader<'r> {
    #[verifier::external_body] fn verify(slice: &[u8], compatible: bool) -> (r: Result<(), VerificationError>) ensures (r is Ok) == (slice@.len() == 1) { unimplemented!() }
}
#[verifier::external_body] pub fn verif_ve() -> (r: Result<(), VerificationError>) ensures r is Err { unimplemented!() }
// the header of a table / dynamic vector: [total size][offset 0] .. [offset n-1], offset 0 = 4 * (n + 1)
pub open spec fn item_count(s: Seq<u8>) -> int { if s.len() < 8 { 0 } else { num_at(s, 4) / 4 - 1 } }
pub open spec fn offs(s: Seq<u8>, i: int) -> int { if 0 <= i < item_count(s) { num_at(s, 4 + 4 * i) } else { s.len() as int } }
pub open spec fn offsets_ok(s: Seq<u8>) -> bool {
    s.len() >= 8 && num_at(s, 4) %% 4 == 0 && num_at(s, 4) >= 8 && s.len() >= num_at(s, 4)
    && forall|i: int| 0 <= i < item_count(s) ==> #[trigger] offs(s, i) <= offs(s, i + 1)
}
pub open spec fn table_header_ok(s: Seq<u8>, n: int, c: bool) -> bool {
    s.len() >= 4 && num_at(s, 0) == s.len() && offsets_ok(s) && item_count(s) >= n && (c || item_count(s) == n)
}
pub open spec fn dynvec_header_ok(s: Seq<u8>) -> bool { s.len() >= 4 && num_at(s, 0) == s.len() && (s.len() == 4 || offsets_ok(s)) }
#[verifier::external_body] pub fn verif_offsets(slice: &[u8], offset_first: usize) -> (r: Vec<usize>)
    requires 4 <= offset_first <= slice@.len(), offset_first %% 4 == 0
    ensures r@.len() == offset_first / 4 - 1, forall|i: int| 0 <= i < r@.len() ==> #[trigger] r@[i] as int == num_at(slice@, 4 + 4 * i)
{ unimplemented!() }
#[verifier::external_body] pub fn verif_any_descending(o: &Vec<usize>) -> (r: bool)
    ensures r == exists|i: int| 0 <= i && i + 1 < o@.len() && #[trigger] o@[i] > o@[i + 1]
{ unimplemented!() }
#[verifier::external_body] pub fn verif_windows2<'a>(o: &'a Vec<usize>) -> (r: OIter<&'a [usize]>)
    ensures oview(&r).0 == 0, oview(&r).1.len() == (if o@.len() >= 1 { o@.len() - 1 } else { 0 }),
        forall|i: int| 0 <= i < oview(&r).1.len() ==> (#[trigger] oview(&r).1[i])@ == o@.subrange(i, i + 2)
{ unimplemented!() }
pub proof fn lemma_offsets(s: Seq<u8>, o: Seq<usize>)
    requires s.len() >= 8, num_at(s, 4) %% 4 == 0, num_at(s, 4) >= 8, s.len() >= num_at(s, 4), o.len() == item_count(s) + 1, o[o.len() - 1] == s.len(),
        forall|i: int| 0 <= i < o.len() - 1 ==> #[trigger] o[i] as int == num_at(s, 4 + 4 * i)
    ensures forall|i: int| #![trigger o[i]] #![trigger offs(s, i)] 0 <= i < o.len() ==> o[i] == offs(s, i), o[0] == num_at(s, 4) || o.len() == 1
{ }
pub proof fn lemma_monotone(s: Seq<u8>, o: Seq<usize>)
    requires o.len() >= 1, forall|i: int| 0 <= i && i + 1 < o.len() ==> #[trigger] o[i] <= o[i + 1]
    ensures forall|i: int, j: int| 0 <= i <= j < o.len() ==> o[i] <= o[j]
{
    assert forall|i: int, j: int| 0 <= i <= j < o.len() implies o[i] <= o[j] by { lemma_mono_ij(o, i, j); }
}
pub proof fn lemma_mono_ij(o: Seq<usize>, i: int, j: int)
    requires 0 <= i <= j < o.len(), forall|k: int| 0 <= k && k + 1 < o.len() ==> #[trigger] o[k] <= o[k + 1]
    ensures o[i] <= o[j]
    decreases j - i
{ if i < j { lemma_mono_ij(o, i, j - 1); } }
%s
\'\'\'
''' % (len(names['table']), len(names['dynvec']), len(names['option']), len(names['union']), digest.hexdigest(), '\n'.join(specs))
    out = os.path.join(ROOT, os.environ.get('C15_DYN_DIR', 'contracts'), 'c15_dyn.toml')
    only = os.environ.get('ONLY')
    open(out, 'w').write(head + ''.join(items))
    print('c15_dyn: %d readers under contract (%s), %d callee contracts' % (len(dyn), ', '.join('%d %s' % (len(v), k_) for k_, v in names.items()), len(declared)))

    # ------------------------------------------------------------------------------------------------------------------
    # second generated unit: the ACCESSORS of the readers (tables, dynamic vectors, options), with "the reader was verified"
    # (the acceptance predicate, in either mode) as precondition
    def wf(n, s):
        if klass(n) == 'fixed':
            return '(%s).len() == %d' % (s, fixed_size(n))
        return '(ok_%s(%s, true) || ok_%s(%s, false))' % (n, s, n, s)
    aitems = []
    def reach(roots):
        seen, todo = set(), list(roots)
        while todo:
            x = todo.pop()
            if x in seen or x == 'byte':
                continue
            seen.add(x)
            kind_, payload_, _f_ = types[x]
            if kind_ in ('struct', 'table'):
                todo += [ft for _fn, ft in payload_]
            elif kind_ == 'union':
                todo += [nm for nm, _i in payload_]
            elif kind_ == 'array':
                todo.append(payload_[0])
            else:
                todo.append(payload_)
        return seen
    scope = reach([n for n in order if types[n][2] == 'blockchain.rs'] + ['RelayMessage', 'SyncMessage'])
    anames = set(n for n in dyn if klass(n) in ('table', 'dynvec', 'option'))
    fixvecs = [n for n in order if klass(n) == 'fixvec'] if not os.environ.get('ONLY') else []
    anames |= set(fixvecs)
    aneed = set()
    for n in anames:
        kind, payload, _f = types[n]
        if klass(n) == 'table':
            aneed.update(ft for _fn, ft in payload)
        else:
            aneed.add(payload)
    aneed.discard('byte')
    nfun = 0
    for n in [x for x in order if x in (anames | aneed)]:
        f = types[n][2]
        aitems.append(struct_item(n, f))
        aitems.append('''
[[item]]
file = "util/gen-types/src/generated/%s"
path = "impl molecule::prelude::Reader<'r> for %sReader<'r>::fn new_unchecked"
result = "r"
ensures = ["C16.access.%s.new_unchecked: r.0@ == slice@"]
[[item]]
file = "util/gen-types/src/generated/%s"
path = "impl molecule::prelude::Reader<'r> for %sReader<'r>::fn as_slice"
result = "r"
ensures = ["C16.access.%s.as_slice: r@ == self.0@"]''' % (f, n, n, f, n, n))
        nfun += 2
    for n in [x for x in order if x in anames]:
        kind, payload, f = types[n]
        k = klass(n)
        nimpl = len(re.findall(r"^impl<'r> %sReader<'r> \{" % n, src[f], flags=re.M))
        idx = '#0' if nimpl > 1 else ''
        base = '''
[[item]]
file = "util/gen-types/src/generated/%s"
path = "impl %sReader<'r>%s::fn %%s"
result = "r"
requires = ["C16.access.%s.pre.the_reader_was_verified: %s"]''' % (f, n, idx, n, wf(n, 'self.0@'))
        REVEAL = '''
  [[item.proof]]
  at = "start"
  text = "reveal(ok_%s);"''' % n
        if k == 'option':
            EMPTY = '''
  [[item.abstract]]
  expr = "self.0.is_empty()"
  as = "(self.0.len() == 0)"'''
            aitems.append(base % 'is_none' + '\nensures = ["C16.access.%s.is_none: r == (self.0@.len() == 0)"]' % n + EMPTY + REVEAL)
            aitems.append(base % 'is_some' + '\nensures = ["C16.access.%s.is_some: r == (self.0@.len() != 0)"]' % n + EMPTY + REVEAL)
            aitems.append(base % 'to_opt' + '\nensures = ["C16.access.%s.to_opt.the_payload_is_the_whole_slice_and_was_verified: (r is None <==> self.0@.len() == 0) && (r matches Some(v) ==> v.0@ == self.0@ && %s)"]' % (n, wf(payload, 'v.0@')) + REVEAL)
            nfun += 3
        elif k == 'table' and payload:
            N = len(payload)
            c = 'VERIF_%s_FIELD_COUNT' % n.upper()
            aitems.append('''
[[item]]
file = "util/gen-types/src/generated/%s"
path = "impl %sReader<'r>%s::const FIELD_COUNT"
hoist_as = "%s"''' % (f, n, idx, c))
            FC = '''
  [[item.abstract]]
  expr = "Self::FIELD_COUNT"
  all = true
  as = "%s"''' % c
            aitems.append(base % 'total_size' + '\nensures = ["C16.access.%s.total_size: r == self.0@.len()"]' % n + REVEAL)
            aitems.append(base % 'field_count' + '\nensures = ["C16.access.%s.field_count: r == item_count(self.0@)"]' % n + REVEAL)
            aitems.append(base % 'count_extra_fields' + '\nensures = ["C16.access.%s.count_extra_fields: r == item_count(self.0@) - %d"]' % (n, N) + FC + REVEAL)
            aitems.append(base % 'has_extra_fields' + '\nensures = ["C16.access.%s.has_extra_fields: r == (item_count(self.0@) != %d)"]' % (n, N) + FC + REVEAL)
            nfun += 4
            for i, (fn_, ft) in enumerate(payload):
                aitems.append(base % fn_ + '''
ensures = ["C16.access.%s.%s.is_the_sub_slice_between_offsets_%d_and_%d_and_was_verified: r.0@ == self.0@.subrange(offs(self.0@, %d), offs(self.0@, %d)) && %s"]
  [[item.proof]]
  at = "start"
  text = "reveal(ok_%s); lemma_offs_bounds(self.0@, %d);"''' % (n, fn_, i, i + 1, i, i + 1, wf(ft, 'r.0@'), n, i))
                nfun += 1
        elif k == 'fixvec':
            isz = fixed_size(payload)
            c = 'VERIF_%s_ITEM_SIZE' % n.upper()
            aitems.append('''
[[item]]
file = "util/gen-types/src/generated/%s"
path = "impl %sReader<'r>%s::const ITEM_SIZE"
hoist_as = "%s"''' % (f, n, idx, c))
            IS = '''
  [[item.abstract]]
  expr = "Self::ITEM_SIZE"
  all = true
  as = "%s"''' % c
            aitems.append(base % 'total_size' + '\nensures = ["C16.access.%s.total_size: r == self.0@.len()"]' % n + IS + REVEAL)
            aitems.append(base % 'item_count' + '\nensures = ["C16.access.%s.item_count: r == num_at(self.0@, 0)"]' % n + REVEAL)
            aitems.append(base % 'len' + '\nensures = ["C16.access.%s.len: r == num_at(self.0@, 0)"]' % n + REVEAL)
            aitems.append(base % 'is_empty' + '\nensures = ["C16.access.%s.is_empty: r == (num_at(self.0@, 0) == 0)"]' % n + REVEAL)
            gotf = 'r.0@ == self.0@.subrange(4 + %d * idx, 4 + %d * (idx + 1)) && r.0@.len() == %d' % (isz, isz, isz)
            aitems.append((base % 'get_unchecked').replace('"]', '", "C16.access.%s.get_unchecked.pre.index_in_range: idx < num_at(self.0@, 0)"]' % n)
                          + '\nensures = ["C16.access.%s.get_unchecked.is_item_idx_of_the_vector: %s"]' % (n, gotf) + IS + REVEAL)
            aitems.append(base % 'get' + '\nensures = ["C16.access.%s.get.some_exactly_for_an_index_in_range: (r is Some <==> idx < num_at(self.0@, 0)) && (r matches Some(v) ==> %s)"]' % (n, gotf.replace('r.0@', 'v.0@')) + REVEAL)
            nfun += 6
            if n == 'Bytes':
                aitems.append(base % 'raw_data' + '\nensures = ["C16.access.Bytes.raw_data.is_everything_after_the_item_count: r@ == self.0@.subrange(4, self.0@.len() as int)"]' + REVEAL)
                nfun += 1
        elif k == 'dynvec':
            aitems.append(base % 'total_size' + '\nensures = ["C16.access.%s.total_size: r == self.0@.len()"]' % n + REVEAL)
            aitems.append(base % 'item_count' + '\nensures = ["C16.access.%s.item_count: r == item_count(self.0@)"]' % n + REVEAL)
            aitems.append(base % 'len' + '\nensures = ["C16.access.%s.len: r == item_count(self.0@)"]' % n + REVEAL)
            aitems.append(base % 'is_empty' + '\nensures = ["C16.access.%s.is_empty: r == (item_count(self.0@) == 0)"]' % n + REVEAL)
            got = 'r.0@ == self.0@.subrange(offs(self.0@, idx as int), offs(self.0@, idx + 1)) && %s' % wf(payload, 'r.0@')
            aitems.append((base % 'get_unchecked').replace('"]', '", "C16.access.%s.get_unchecked.pre.index_in_range: idx < item_count(self.0@)"]' % n) + '''
ensures = ["C16.access.%s.get_unchecked.is_the_sub_slice_between_consecutive_offsets_and_was_verified: %s"]
  [[item.proof]]
  at = "start"
  text = "reveal(ok_%s); lemma_offs_bounds(self.0@, idx as int); assert(%s);"''' % (n, got, n, ok(payload, 'self.0@.subrange(offs(self.0@, idx as int), offs(self.0@, idx + 1))').replace(', c)', ', true)') + ' || ' + ok(payload, 'self.0@.subrange(offs(self.0@, idx as int), offs(self.0@, idx + 1))').replace(', c)', ', false)') if klass(payload) != 'fixed' else 'true'))
            aitems.append(base % 'get' + '\nensures = ["C16.access.%s.get.some_exactly_for_an_index_in_range: (r is Some <==> idx < item_count(self.0@)) && (r matches Some(v) ==> %s)"]' % (n, got.replace('r.0@', 'v.0@')) + REVEAL)
            nfun += 6
    ahead = head.replace('pub open spec fn ok_', '#[verifier::opaque] pub open spec fn ok_')
    ahead = ahead.replace('unit   = "c15_dyn"', 'unit   = "c16_access"').replace('serves = ["C15", "C16"]', 'serves = ["C16", "C15"]')
    i0 = ahead.index('claim  = ')
    i1 = ahead.index('\n', i0)
    ahead = ahead[:i0] + 'claim  = "every accessor of a verified molecule reader terminates without an out-of-range slice access or an arithmetic overflow and returns exactly the bytes the schema says: for the tables, dynamic vectors and options of the three schemas, given a reader whose bytes satisfy the acceptance predicate of unit c15_dyn (in either mode), each field accessor returns the sub-slice between consecutive offsets (the last field up to the next offset when extra fields are present, else up to the end), which itself satisfies its type\'s predicate; total_size / field_count / count_extra_fields / has_extra_fields / item_count / len / is_empty / get / get_unchecked / is_none / is_some / to_opt have their schema meaning"' + ahead[i1:]
    ahead = ahead.replace('pub mod prelude { pub trait Reader<\'r> { fn verify(slice: &[u8], compatible: bool) -> Result<(), super::super::VerificationError>; } }',
                          'pub mod prelude { pub trait Reader<\'r>: Sized { fn new_unchecked(slice: &\'r [u8]) -> Self; fn as_slice(&self) -> &\'r [u8]; } }')
    j0 = ahead.index("impl<'r> molecule::prelude::Reader<'r> for ByteReader<'r> {")
    j1 = ahead.index('\n}\n', j0) + 3
    ahead = ahead[:j0] + '''#[allow(unused_imports)] use molecule::prelude::Reader;
impl<'r> molecule::prelude::Reader<'r> for ByteReader<'r> {
    fn new_unchecked(slice: &'r [u8]) -> (r: Self) ensures r.0@ == slice@ { ByteReader(slice) }
    fn as_slice(&self) -> (r: &'r [u8]) ensures r@ == self.0@ { self.0 }
}
// every offset of a well-formed header is ordered and inside the bytes
pub proof fn lemma_offs_le_len(s: Seq<u8>, k: int)
    requires offsets_ok(s), 0 <= k <= item_count(s)
    ensures offs(s, k) <= s.len()
    decreases item_count(s) - k
{ if k < item_count(s) { lemma_offs_le_len(s, k + 1); assert(offs(s, k) <= offs(s, k + 1)); } }
pub proof fn lemma_offs_bounds(s: Seq<u8>, k: int)
    requires offsets_ok(s), 0 <= k < item_count(s)
    ensures 8 <= offs(s, 0) <= offs(s, k) <= offs(s, k + 1) <= s.len(), offs(s, k) == num_at(s, 4 + 4 * k), k + 1 < item_count(s) ==> offs(s, k + 1) == num_at(s, 8 + 4 * k), 4 + 4 * item_count(s) == num_at(s, 4) - 4 + 4 - 0 || true
{
    lemma_offs_le_len(s, k + 1);
    assert(offs(s, k) <= offs(s, k + 1));
    lemma_offs_ge_first(s, k);
}
pub proof fn lemma_offs_ge_first(s: Seq<u8>, k: int)
    requires offsets_ok(s), 0 <= k < item_count(s)
    ensures offs(s, 0) <= offs(s, k), offs(s, 0) >= 8
    decreases k
{ if k > 0 { lemma_offs_ge_first(s, k - 1); assert(offs(s, k - 1) <= offs(s, k)); } }
''' + ahead[j1:]
    ahead = ahead.replace('canary_only = ["for ScriptReader<", "for BytesVecReader<", "for ScriptOptReader<", "for RelayMessageReader<", "for InIBDReader<"]',
                          'canary_only = ["impl ScriptReader<\'r>::fn args", "impl BytesVecReader<\'r>#0::fn get_unchecked", "impl ScriptOptReader<\'r>::fn to_opt", "impl CellOutputReader<\'r>::fn lock"]')
    open(os.path.join(ROOT, os.environ.get('C15_DYN_DIR', 'contracts'), 'c16_access.toml'), 'w').write(ahead + ''.join(aitems))
    print('c16_access: %d accessor functions under contract' % nfun)


if __name__ == '__main__':
    main()
