#!/bin/bash
# runs each neutral patch through the checks of the properties its unit serves
cd /verif
declare -A P=( [n01]=C01 [n02]=C01 [n03]=C03 [n04]=C03 [n05]=C03 [n06]="C03 C04" [n07]=C04 [n08]=C04 [n09]="C06 C07" [n10]=C06 [n11]="C06 C03" [n12]=C07 [n13]="C07 C06" [n14]="C07 C04" [n15]="C07 C06" [n16]="C07 C06" [n17]="C07 C03" [n18]=C09 [n19]=C09 [n20]=C09 [n21]=C09 [n22]=C09 [n23]=C11 [n24]=C11 [n25]="C11 C13" [n26]=C13 [n27]=C17 [n28]=C19 [n29]="C19 C03" [n30]=C20 )
for n in $(ls /verif/neutral | grep '^n[0-9]'); do
  for p in ${P[$n]}; do
    r=$(tools/try_mutant.sh /verif/neutral/$n/patch.diff $p 2>&1 | grep -E "VIOLATION|UNDECIDED|undecided:|check rc" | tr '\n' ' ')
    echo "$n $p :: $r"
  done
done
