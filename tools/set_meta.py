#!/usr/bin/env python3
"""set_meta.py <seed_id> <caught yes|no|undecided> <by> <note>  -- updates seeded/<id>/meta.json check_result"""
import json, sys, os
sid, caught, by, note = sys.argv[1:5]
p = os.path.join(os.path.dirname(os.path.dirname(os.path.abspath(__file__))), 'seeded', sid, 'meta.json')
m = json.load(open(p)); m['check_result'] = {'caught': caught, 'by': by, 'note': note}; json.dump(m, open(p, 'w'), indent=1)
