#!/bin/bash
# usage: confirm_mutant.sh <worktree> <mutant_dir> "<existing-tests cmd>" "<demo cmd>"
# Confirms: patch applies on current main; existing tests pass with patch; demo fails with patch, passes without.
set -u
WT=$1; M=$2; TESTS=$3; DEMO=$4
cd "$WT" || exit 2
git checkout -q -- . ; git clean -fdq -e OUT -e target
git checkout -q --detach main 2>/dev/null
echo "== HEAD $(git log --oneline | head -1)"
git apply --check "$M/patch.diff" || { echo "PATCH DOES NOT APPLY"; exit 3; }
git apply "$M/demo.diff" || { echo "DEMO DOES NOT APPLY"; exit 3; }
echo "== demo WITHOUT patch (must pass)"; (eval "$DEMO") > "$M/.demo_without.log" 2>&1; r1=$?; echo "rc=$r1"
git apply "$M/patch.diff"
echo "== demo WITH patch (must fail)"; (eval "$DEMO") > "$M/.demo_with.log" 2>&1; r2=$?; echo "rc=$r2"
git apply -R "$M/demo.diff"
echo "== existing tests WITH patch (must pass)"; (eval "$TESTS") > "$M/.tests_with.log" 2>&1; r3=$?; echo "rc=$r3"; grep -E "^test result|FAILED|failed" "$M/.tests_with.log" | head -8
git checkout -q -- . ; git clean -fdq -e OUT -e target
if [ $r1 -eq 0 ] && [ $r2 -ne 0 ] && [ $r3 -eq 0 ]; then echo "CONFIRMED"; exit 0; else echo "NOT CONFIRMED ($r1 $r2 $r3)"; exit 1; fi
