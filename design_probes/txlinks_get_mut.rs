#![feature(allocator_api)]
#![feature(sized_hierarchy)]
use vstd::prelude::*;
use std::collections::{HashMap, HashSet};
verus! {
#[verifier::external_body]
#[derive(PartialEq, Eq, Hash)]
pub struct ProposalShortId { b: [u8; 10] }
pub assume_specification<'a, K, V, S, A, Q> [std::collections::HashMap::<K, V, S, A>::get_mut] (m: &'a mut std::collections::HashMap<K, V, S, A>, k: &Q) -> (r: std::option::Option<&'a mut V>)
    where
    A: std::alloc::Allocator,
    K: std::cmp::Eq + std::hash::Hash + std::borrow::Borrow<Q>,
    Q: std::marker::MetaSized + std::hash::Hash + std::cmp::Eq + ?Sized,
    S: std::hash::BuildHasher,
    ensures
        vstd::std_specs::hash::obeys_key_model::<K>() && vstd::std_specs::hash::builds_valid_hashers::<S>() ==> (match r {
            None => final(m)@ == old(m)@,
            Some(v) => final(m)@.dom() == old(m)@.dom(),
        }),
;
impl Clone for ProposalShortId {
    #[verifier::external_body]
    fn clone(&self) -> (r: Self) ensures r == *self { unimplemented!() }
}


pub struct TxLinks {
    pub parents: HashSet<ProposalShortId>,
    pub children: HashSet<ProposalShortId>,
}

#[derive(Clone, Copy)]
pub enum Relation {
    Parents,
    Children,
}

impl TxLinks {
    fn get_direct_ids(&self, relation: Relation) -> &HashSet<ProposalShortId> {
        match relation {
            Relation::Parents => &self.parents,
            Relation::Children => &self.children,
        }
    }
}


pub struct TxLinksMap {
    pub inner: HashMap<ProposalShortId, TxLinks>,
}

impl TxLinksMap {
    pub fn new() -> Self {
        TxLinksMap {
            inner: Default::default(),
        }
    }

    fn calc_relative_ids(
        &self,
        short_id: &ProposalShortId,
        relation: Relation,
    ) -> HashSet<ProposalShortId> {
        let direct = self
            .inner
            .get(short_id)
            .map(|link| link.get_direct_ids(relation))
            .cloned()
            .unwrap_or_default();

        self.calc_relation_ids(direct, relation)
    }

    #[verifier::external_body]
    pub fn calc_relation_ids(
        &self,
        mut stage: HashSet<ProposalShortId>,
        relation: Relation,
    ) -> HashSet<ProposalShortId> {
        let mut relation_ids = HashSet::with_capacity(stage.len());

        while let Some(id) = stage.iter().next().cloned() {
            //recursively
            if let Some(tx_links) = self.inner.get(&id) {
                for direct_id in tx_links.get_direct_ids(relation) {
                    if !relation_ids.contains(direct_id) {
                        stage.insert(direct_id.clone());
                    }
                }
            }
            stage.remove(&id);
            relation_ids.insert(id);
        }
        relation_ids
    }

    pub fn add_link(&mut self, short_id: ProposalShortId, links: TxLinks) {
        self.inner.insert(short_id, links);
    }

    pub fn calc_ancestors(&self, short_id: &ProposalShortId) -> HashSet<ProposalShortId> {
        self.calc_relative_ids(short_id, Relation::Parents)
    }

    pub fn calc_descendants(&self, short_id: &ProposalShortId) -> HashSet<ProposalShortId> {
        self.calc_relative_ids(short_id, Relation::Children)
    }

    pub fn get_children(&self, short_id: &ProposalShortId) -> Option<&HashSet<ProposalShortId>> {
        self.inner.get(short_id).map(|link| &link.children)
    }

    pub fn get_parents(&self, short_id: &ProposalShortId) -> Option<&HashSet<ProposalShortId>> {
        self.inner.get(short_id).map(|link| &link.parents)
    }

    pub fn remove(&mut self, short_id: &ProposalShortId) -> Option<TxLinks> {
        self.inner.remove(short_id)
    }

    pub fn remove_child(
        &mut self,
        short_id: &ProposalShortId,
        child: &ProposalShortId,
    ) -> (r: Option<bool>)
        ensures final(self).inner@.dom() == old(self).inner@.dom()
    {
        self.inner
            .get_mut(short_id)
            .map(|links| links.children.remove(child))
    }

    pub fn remove_parent(
        &mut self,
        short_id: &ProposalShortId,
        parent: &ProposalShortId,
    ) -> Option<bool> {
        self.inner
            .get_mut(short_id)
            .map(|links| links.parents.remove(parent))
    }

    pub fn add_child(
        &mut self,
        short_id: &ProposalShortId,
        child: ProposalShortId,
    ) -> Option<bool> {
        self.inner
            .get_mut(short_id)
            .map(|links| links.children.insert(child))
    }

    pub fn add_parent(
        &mut self,
        short_id: &ProposalShortId,
        parent: ProposalShortId,
    ) -> Option<bool> {
        self.inner
            .get_mut(short_id)
            .map(|links| links.parents.insert(parent))
    }

    pub fn clear(&mut self) {
        self.inner.clear();
    }
}

}
fn main(){}
