use vstd::prelude::*;
use std::cmp;
use vstd::std_specs::cmp::OrdSpec;
verus! {

pub type BlockNumber = u64;
pub type EpochNumber = u64;
#[derive(Clone, Copy, PartialEq, Eq)]
pub struct Capacity(pub u64);
pub enum CapError { Overflow }
pub type CapacityResult<T> = Result<T, CapError>;

// ---- contracts of callees (proved separately, Kani overlay on ckb-occupied-capacity-core) ----
impl Capacity {
    #[verifier::external_body]
    pub const fn shannons(val: u64) -> (r: Self) ensures r.0 == val { Capacity(val) }
    #[verifier::external_body]
    pub const fn one() -> (r: Self) ensures r.0 == 1 { Capacity(1) }
    #[verifier::external_body]
    pub fn as_u64(self) -> (r: u64) ensures r == self.0 { self.0 }
    #[verifier::external_body]
    pub fn safe_add(self, rhs: Capacity) -> (r: CapacityResult<Self>)
        ensures self.0 + rhs.0 <= u64::MAX ==> r is Ok && r->Ok_0.0 == self.0 + rhs.0,
                self.0 + rhs.0 > u64::MAX ==> r is Err
    { unimplemented!() }
}

#[verifier::external_body]
pub struct U256 { x: [u64; 4] }
#[verifier::external_body]
pub struct Byte32 { x: [u8; 32] }

pub struct EpochExt {
    pub number: EpochNumber,
    pub base_block_reward: Capacity,
    pub remainder_reward: Capacity,
    pub previous_epoch_hash_rate: U256,
    pub last_block_hash_in_previous_epoch: Byte32,
    pub start_number: BlockNumber,
    pub length: BlockNumber,
    pub compact_target: u32,
}

// ---------- spec from the property statement ----------
// scheduled reward of the k-th block (k = 0-based index inside the epoch)
pub open spec fn sched(total: nat, len: nat, k: nat) -> nat
    recommends len > 0
{
    total / len + if k < total % len { 1nat } else { 0nat }
}
pub open spec fn sched_sum(total: nat, len: nat, n: nat) -> nat
    decreases n
{
    if n == 0 { 0 } else { sched_sum(total, len, (n - 1) as nat) + sched(total, len, (n - 1) as nat) }
}
// partial sums: first n blocks get base each plus one of the first `rem` extra shannons
proof fn lemma_sched_prefix(total: nat, len: nat, n: nat)
    requires len > 0, n <= len
    ensures sched_sum(total, len, n) == (total / len) * n + if n <= total % len { n } else { total % len }
    decreases n
{
    if n > 0 {
        lemma_sched_prefix(total, len, (n - 1) as nat);
        let q = (total / len) as int; let ni = n as int;
        assert(q * ni == q * (ni - 1) + q) by(nonlinear_arith);
        assert(sched_sum(total, len, n) == sched_sum(total, len, (n - 1) as nat) + sched(total, len, (n - 1) as nat));
        assert((total / len) * n == q * ni);
        assert((total / len) * ((n - 1) as nat) == q * (ni - 1));
    } else {
        assert((total / len) * n == 0) by(nonlinear_arith) requires n == 0;
    }
}
// the clause of C07: rewards inside an epoch sum exactly to the epoch's scheduled issuance
proof fn lemma_sched_total(total: nat, len: nat)
    requires len > 0
    ensures sched_sum(total, len, len) == total
{
    lemma_sched_prefix(total, len, len);
    assert(total % len < len) by(nonlinear_arith) requires len > 0;
    assert(total == (total / len) * len + total % len) by(nonlinear_arith) requires len > 0;
}

impl EpochExt {
    pub open spec fn wf(&self) -> bool {
        &&& self.length > 0
        &&& self.remainder_reward.0 < self.length
        &&& self.base_block_reward.0 * self.length + self.remainder_reward.0 <= u64::MAX
        &&& self.start_number + self.length <= u64::MAX
    }
    pub open spec fn total(&self) -> nat { (self.base_block_reward.0 * self.length + self.remainder_reward.0) as nat }

    pub fn start_number(&self) -> (r: BlockNumber) ensures r == self.start_number {
        self.start_number
    }
    pub fn length(&self) -> (r: BlockNumber) ensures r == self.length {
        self.length
    }

    /// Returns the total primary reward for the epoch.
    pub fn primary_reward(&self) -> (r: Capacity)
        requires self.wf()
        ensures r.0 == self.total()
    {
        Capacity::shannons(
            self.base_block_reward.as_u64() * self.length + self.remainder_reward.as_u64(),
        )
    }

    /// Sets the primary reward by calculating base and remainder rewards.
    pub fn set_primary_reward(&mut self, primary_reward: Capacity)
        requires old(self).length > 0, old(self).start_number + old(self).length <= u64::MAX
        ensures final(self).wf(), final(self).total() == primary_reward.0,
            final(self).length == old(self).length, final(self).start_number == old(self).start_number, final(self).number == old(self).number,
            final(self).compact_target == old(self).compact_target,
    {
        let primary_reward_u64 = primary_reward.as_u64();
        self.base_block_reward = Capacity::shannons(primary_reward_u64 / self.length);
        self.remainder_reward = Capacity::shannons(primary_reward_u64 % self.length);
        proof {
            let p = primary_reward_u64 as int; let l = self.length as int;
            assert(p == (p / l) * l + p % l && p % l < l) by(nonlinear_arith) requires l > 0, p >= 0;
        }
    }

    /// Returns the block reward for a specific block number in this epoch.
    pub fn block_reward(&self, number: BlockNumber) -> (r: CapacityResult<Capacity>)
        requires self.wf(), self.start_number <= number < self.start_number + self.length,
        ensures r is Ok, r->Ok_0.0 == sched(self.total(), self.length as nat, (number - self.start_number) as nat)
    {
        proof {
            let b = self.base_block_reward.0 as int; let l = self.length as int; let m = self.remainder_reward.0 as int;
            assert((b * l + m) / l == b && (b * l + m) % l == m) by(nonlinear_arith) requires l > 0, 0 <= m < l, b >= 0;
            assert(m >= 1 ==> b + 1 <= u64::MAX) by(nonlinear_arith) requires l > 0, b * l + m <= u64::MAX, m < l, b >= 0;
        }
        if number >= self.start_number()
            && number < self.start_number() + self.remainder_reward.as_u64()
        {
            self.base_block_reward.safe_add(Capacity::one())
        } else {
            Ok(self.base_block_reward)
        }
    }
}

pub assume_specification<T: Ord> [std::cmp::min] (a: T, b: T) -> (r: T)
    ensures r == a || r == b,
        T::obeys_cmp_spec() ==> (a.cmp_spec(&b) == std::cmp::Ordering::Greater ==> r == b) && (a.cmp_spec(&b) != std::cmp::Ordering::Greater ==> r == a);
pub assume_specification<T: Ord> [std::cmp::max] (a: T, b: T) -> (r: T)
    ensures r == a || r == b,
        T::obeys_cmp_spec() ==> (a.cmp_spec(&b) == std::cmp::Ordering::Greater ==> r == a) && (a.cmp_spec(&b) != std::cmp::Ordering::Greater ==> r == b);
pub const MAX_EPOCH_LENGTH: u64 = 1800;
pub const MIN_EPOCH_LENGTH: u64 = 300;
pub const TAU: u64 = 2;
#[verifier::external_body]
pub struct Consensus { x: u64 }

impl Consensus {
    pub fn max_epoch_length(&self) -> (r: BlockNumber) ensures r == MAX_EPOCH_LENGTH {
        MAX_EPOCH_LENGTH
    }
    pub fn min_epoch_length(&self) -> (r: BlockNumber) ensures r == MIN_EPOCH_LENGTH {
        MIN_EPOCH_LENGTH
    }
    fn bounding_epoch_length(
        &self,
        length: BlockNumber,
        last_epoch_length: BlockNumber,
    ) -> (r: (BlockNumber, bool))
        requires MIN_EPOCH_LENGTH <= last_epoch_length <= MAX_EPOCH_LENGTH
        ensures
            MIN_EPOCH_LENGTH <= r.0 <= MAX_EPOCH_LENGTH,
            last_epoch_length / 2 <= r.0 <= last_epoch_length * 2,
            r.1 == (r.0 != length),
            !r.1 ==> r.0 == length,
    {
        let max_length = cmp::min(self.max_epoch_length(), last_epoch_length * TAU);
        let min_length = cmp::max(self.min_epoch_length(), last_epoch_length / TAU);
        if length > max_length {
            (max_length, true)
        } else if length < min_length {
            (min_length, true)
        } else {
            (length, false)
        }
    }
}

}
fn main() {}
