use vstd::prelude::*;

verus! {

#[verifier::external_body]
#[derive(PartialEq, Eq)]
pub struct Byte32 { b: [u8; 32] }
#[verifier::external_body]
pub struct U256 { b: [u64; 4] }
pub type BlockNumber = u64;
#[derive(Clone, Copy, PartialEq, Eq)]
pub struct EpochNumberWithFraction(pub u64);
pub struct BlockNumberAndHash { pub number: BlockNumber, pub hash: Byte32 }
impl From<(BlockNumber, Byte32)> for BlockNumberAndHash {
    #[verifier::external_body]
    fn from(inner: (BlockNumber, Byte32)) -> Self {
        Self { number: inner.0, hash: inner.1 }
    }
}

impl Clone for Byte32 {
    #[verifier::external_body]
    fn clone(&self) -> (r: Self) ensures r == *self { unimplemented!() }
}
impl Clone for U256 {
    #[verifier::external_body]
    fn clone(&self) -> (r: Self) ensures r == *self { unimplemented!() }
}

pub struct HeaderIndexView {
    pub hash: Byte32,
    pub number: BlockNumber,
    pub epoch: EpochNumberWithFraction,
    pub timestamp: u64,
    pub parent_hash: Byte32,
    pub total_difficulty: U256,
    pub skip_hash: Option<Byte32>,
}

impl Clone for HeaderIndexView {
    #[verifier::external_body]
    fn clone(&self) -> (r: Self) ensures r == *self { unimplemented!() }
}

// ---------- spec ----------
pub open spec fn ilo(n: u64) -> u64 { n & sub(n, 1) }   // invert lowest one (on the u64 image)
pub open spec fn skip_height(h: u64) -> u64 {
    if h < 2 { 0 } else if h & 1 > 0 { add(ilo(ilo(sub(h, 1))), 1) } else { ilo(h) }
}
proof fn lemma_ilo(n: u64)
    ensures ilo(n) <= n, n > 0 ==> ilo(n) < n
{
    assert(n & sub(n, 1) <= n) by(bit_vector);
    assert(n > 0 ==> (n & sub(n, 1)) < n) by(bit_vector);
}
proof fn lemma_skip_lt(h: u64)
    requires h >= 1, h < 0x8000_0000_0000_0000
    ensures skip_height(h) < h
{
    lemma_ilo(h); lemma_ilo(sub(h,1)); lemma_ilo(ilo(sub(h,1)));
    if h >= 2 && (h & 1) > 0 {
        assert(h & 1 > 0 ==> sub(h,1) & sub(sub(h,1),1) < sub(h,1) || sub(h,1) == 0) by(bit_vector);
    }
}

// ghost chain, universally quantified (uninterpreted)
pub uninterp spec fn chain_at(i: int) -> HeaderIndexView;

#[verifier::opaque]
pub open spec fn chain_wf(top: int) -> bool {
    &&& forall|i: int| 0 <= i <= top ==> (#[trigger] chain_at(i)).number == i
    &&& forall|i: int| 1 <= i <= top ==> (#[trigger] chain_at(i)).parent_hash == chain_at(i - 1).hash
    &&& forall|i: int| 0 <= i <= top ==> ((#[trigger] chain_at(i)).skip_hash matches Some(h) ==> h == chain_at(skip_height(i as u64) as int).hash)
    &&& forall|i: int, j: int| 0 <= i <= top && 0 <= j <= top && (#[trigger] chain_at(i)).hash == (#[trigger] chain_at(j)).hash ==> i == j
}

proof fn lemma_at(top: int, k: int)
    requires chain_wf(top), 0 <= k <= top
    ensures chain_at(k).number == k,
        k >= 1 ==> chain_at(k).parent_hash == chain_at(k - 1).hash,
        chain_at(k).skip_hash matches Some(h) ==> h == chain_at(skip_height(k as u64) as int).hash,
{ reveal(chain_wf); }

proof fn lemma_lookup(top: int, v: HeaderIndexView, k: int)
    requires chain_wf(top), 0 <= k <= top, v.hash == chain_at(k).hash,
        exists|i: int| 0 <= i <= top && v == chain_at(i),
    ensures v == chain_at(k)
{
    reveal(chain_wf);
    let i = choose|i: int| 0 <= i <= top && v == chain_at(i);
    assert(chain_at(i).hash == chain_at(k).hash);
}

fn get_skip_height(height: BlockNumber) -> (r: BlockNumber)
    requires height < 0x8000_0000_0000_0000
    ensures r == skip_height(height)
{
    // Turn the lowest '1' bit in the binary representation of a number into a '0'.
    fn invert_lowest_one(n: i64) -> (r: i64)
        requires n >= 0
        ensures r >= 0, r as u64 == ilo(n as u64)
    {
        assert(n >= 0 ==> (n & sub(n, 1i64)) >= 0 && (n & sub(n, 1i64)) as u64 == (n as u64) & sub(n as u64, 1u64)) by(bit_vector);
        if n == 0 { assert(0i64 & sub(0i64,1i64) == 0) by(bit_vector); }
        n & (n - 1)
    }

    if height < 2 {
        return 0;
    }

    if (height & 1) > 0 {
        proof { lemma_ilo(sub(height,1)); lemma_ilo(ilo(sub(height,1))); }
        invert_lowest_one(invert_lowest_one(height as i64 - 1)) as u64 + 1
    } else {
        proof { lemma_ilo(height); }
        invert_lowest_one(height as i64) as u64
    }
}

impl HeaderIndexView {
    pub fn hash(&self) -> (r: Byte32) ensures r == self.hash {
        self.hash.clone()
    }

    pub fn number(&self) -> (r: BlockNumber) ensures r == self.number {
        self.number
    }
    pub fn parent_hash(&self) -> (r: Byte32) ensures r == self.parent_hash {
        self.parent_hash.clone()
    }

    pub fn get_ancestor<F, G>(
        &self,
        tip_number: BlockNumber,
        number: BlockNumber,
        get_header_view: F,
        fast_scanner: G,
    ) -> (res: Option<HeaderIndexView>)
    where
        F: Fn(&Byte32, bool) -> Option<HeaderIndexView>,
        G: Fn(BlockNumber, BlockNumberAndHash) -> Option<HeaderIndexView>,
        requires
            self.number < 0x8000_0000_0000_0000,
            chain_wf(self.number as int),
            *self == chain_at(self.number as int),
            forall|h: &Byte32, b: bool| #[trigger] call_requires(get_header_view, (h, b)),
            forall|h: &Byte32, b: bool, r: Option<HeaderIndexView>| #[trigger] call_ensures(get_header_view, (h, b), r) ==>
                (r matches Some(v) ==> v.hash == *h && exists|i: int| 0 <= i <= self.number && v == chain_at(i)),
            forall|n: BlockNumber, c: BlockNumberAndHash| #[trigger] call_requires(fast_scanner, (n, c)),
            forall|n: BlockNumber, c: BlockNumberAndHash, r: Option<HeaderIndexView>| #[trigger] call_ensures(fast_scanner, (n, c), r) ==>
                (r matches Some(v) ==> n <= self.number && v == chain_at(n as int)),
        ensures
            number > self.number ==> res is None,
            res matches Some(v) ==> v == chain_at(number as int),
    {
        if number > self.number() {
            return None;
        }

        let mut current = self.clone();
        let mut number_walk = current.number();
        while number_walk > number
            invariant_except_break
                current == chain_at(number_walk as int),
            invariant
                self.number < 0x8000_0000_0000_0000,
                chain_wf(self.number as int),
                number <= number_walk <= self.number,
                forall|h: &Byte32, b: bool| #[trigger] call_requires(get_header_view, (h, b)),
                forall|h: &Byte32, b: bool, r: Option<HeaderIndexView>| #[trigger] call_ensures(get_header_view, (h, b), r) ==>
                    (r matches Some(v) ==> v.hash == *h && exists|i: int| 0 <= i <= self.number && v == chain_at(i)),
                forall|n: BlockNumber, c: BlockNumberAndHash| #[trigger] call_requires(fast_scanner, (n, c)),
                forall|n: BlockNumber, c: BlockNumberAndHash, r: Option<HeaderIndexView>| #[trigger] call_ensures(fast_scanner, (n, c), r) ==>
                    (r matches Some(v) ==> n <= self.number && v == chain_at(n as int)),
            ensures current == chain_at(number as int),
            decreases number_walk,
        {
            let number_skip = get_skip_height(number_walk);
            let number_skip_prev = get_skip_height(number_walk - 1);
            proof { lemma_skip_lt(number_walk); if number_walk >= 2 { lemma_skip_lt((number_walk - 1) as u64); } lemma_at(self.number as int, number_walk as int); }
            let store_first = current.number() <= tip_number;
            match current.skip_hash {
                Some(ref hash)
                    if number_skip == number
                        || (number_skip > number
                            && !(number_skip_prev + 2 < number_skip
                                && number_skip_prev >= number)) =>
                {
                    // Only follow skip if parent->skip isn't better than skip->parent
                    current = get_header_view(hash, store_first)?;
                    proof { lemma_lookup(self.number as int, current, number_skip as int); }
                    number_walk = number_skip;
                }
                _ => {
                    current = get_header_view(&current.parent_hash(), store_first)?;
                    proof { lemma_lookup(self.number as int, current, number_walk as int - 1); }
                    number_walk -= 1;
                }
            }
            if let Some(target) = fast_scanner(number, (current.number(), current.hash()).into()) {
                current = target;
                proof { assert(current == chain_at(number as int)); }
                break;
            }
        }
        Some(current)
    }
}

}
fn main() {}
