use vstd::prelude::*;
verus! {
pub type Cycle = u64;
#[derive(Clone, Copy, PartialEq, Eq)]
pub enum Status { Pending, Gap, Proposed }
#[verifier::external_body] pub struct Entries { x: u64 }
pub uninterp spec fn elen(e: &Entries) -> usize;
impl Entries { #[verifier::external_body] pub fn len(&self) -> (r: usize) ensures r == elen(self) { unimplemented!() } }
pub struct PoolMap {
    pub entries: Entries,
    pub pending_count: usize,
    pub gap_count: usize,
    pub proposed_count: usize,
    pub total_tx_size: usize,
    pub total_tx_cycles: Cycle,
}
pub open spec fn one(s: Option<Status>, w: Status) -> int { if s == Some(w) { 1 } else { 0 } }
impl PoolMap {
    fn track_entry_statics(&mut self, remove: Option<Status>, add: Option<Status>)
        requires
            old(self).pending_count - one(remove, Status::Pending) + one(add, Status::Pending)
              + old(self).gap_count - one(remove, Status::Gap) + one(add, Status::Gap)
              + old(self).proposed_count - one(remove, Status::Proposed) + one(add, Status::Proposed) == elen(&old(self).entries),
            old(self).pending_count >= one(remove, Status::Pending), old(self).gap_count >= one(remove, Status::Gap), old(self).proposed_count >= one(remove, Status::Proposed),
        ensures
            final(self).pending_count == old(self).pending_count - one(remove, Status::Pending) + one(add, Status::Pending),
            final(self).gap_count == old(self).gap_count - one(remove, Status::Gap) + one(add, Status::Gap),
            final(self).proposed_count == old(self).proposed_count - one(remove, Status::Proposed) + one(add, Status::Proposed),
            final(self).total_tx_size == old(self).total_tx_size, final(self).total_tx_cycles == old(self).total_tx_cycles,
    {
        match remove {
            Some(Status::Pending) => self.pending_count -= 1,
            Some(Status::Gap) => self.gap_count -= 1,
            Some(Status::Proposed) => self.proposed_count -= 1,
            _ => {}
        }
        match add {
            Some(Status::Pending) => self.pending_count += 1,
            Some(Status::Gap) => self.gap_count += 1,
            Some(Status::Proposed) => self.proposed_count += 1,
            _ => {}
        }
        let __l = self.pending_count + self.gap_count + self.proposed_count; let __r = self.entries.len(); assert(__l == __r);
    }

    fn update_stat_for_remove_tx(&mut self, tx_size: usize, cycles: Cycle) {
        let total_tx_size = self.total_tx_size.checked_sub(tx_size).unwrap_or_else(|| {
            0
        });
        let total_tx_cycles = self.total_tx_cycles.checked_sub(cycles).unwrap_or_else(|| {
            0
        });
        self.total_tx_size = total_tx_size;
        self.total_tx_cycles = total_tx_cycles;
    }
}
}
fn main(){}
