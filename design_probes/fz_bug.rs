use vstd::prelude::*;
use std::fs::{self, File};
use std::io::Error as IoError;
use std::io::{Read, Write, Seek, SeekFrom};
use std::path::{Path, PathBuf};

verus! {

// ---------------- ASSUMED: std::fs as an abstract file system -----------------
#[verifier::external_type_specification] #[verifier::external_body] pub struct ExFile(File);
#[verifier::external_type_specification] #[verifier::external_body] pub struct ExIoError(IoError);
#[verifier::external_type_specification] pub struct ExSeekFrom(SeekFrom);
#[verifier::external_type_specification] #[verifier::external_body] pub struct ExPathBuf(PathBuf);
#[verifier::external_type_specification] #[verifier::external_body] pub struct ExPath(Path);

pub struct FileView { pub id: int, pub data: Seq<u8>, pub pos: int }
pub uninterp spec fn fview<T: ?Sized>(f: &T) -> FileView;
// pre-state content of the file with identity `id`
pub uninterp spec fn disk(id: int) -> Seq<u8>;
// identity of a path value / of a file name value
pub uninterp spec fn pid<T: ?Sized>(p: &T) -> int;
pub uninterp spec fn nid<T>(p: T) -> int;
pub uninterp spec fn pjoin(base: int, name: int) -> int;
pub uninterp spec fn fname(id: u32) -> int;

#[verifier::external_trait_specification]
pub trait ExSeek {
    type ExternalTraitSpecificationFor: Seek;
    fn seek(&mut self, pos: SeekFrom) -> (r: Result<u64, IoError>)
        ensures
            fview(final(self)).data == fview(old(self)).data,
            fview(final(self)).id == fview(old(self)).id,
            match pos {
                SeekFrom::Start(n) => r is Ok && fview(final(self)).pos == n as int,
                SeekFrom::End(k) => (fview(old(self)).data.len() + k >= 0 && fview(old(self)).data.len() + k <= u64::MAX) ==> r is Ok && fview(final(self)).pos == fview(old(self)).data.len() + k,
                SeekFrom::Current(k) => true,
            },
            r is Ok ==> r->Ok_0 as int == fview(final(self)).pos;
    fn rewind(&mut self) -> (r: Result<(), IoError>)
        ensures
            fview(final(self)).data == fview(old(self)).data,
            fview(final(self)).id == fview(old(self)).id,
            r is Ok, fview(final(self)).pos == 0;
}

#[verifier::external_trait_specification]
pub trait ExRead {
    type ExternalTraitSpecificationFor: Read;
    fn read(&mut self, buf: &mut [u8]) -> Result<usize, IoError>;
    fn read_exact(&mut self, buf: &mut [u8]) -> (r: Result<(), IoError>)
        ensures
            fview(final(self)).data == fview(old(self)).data,
            fview(final(self)).id == fview(old(self)).id,
            final(buf)@.len() == old(buf)@.len(),
            r is Ok <==> fview(old(self)).pos + old(buf)@.len() <= fview(old(self)).data.len(),
            r is Ok ==> final(buf)@ == fview(old(self)).data.subrange(fview(old(self)).pos, fview(old(self)).pos + old(buf)@.len())
                && fview(final(self)).pos == fview(old(self)).pos + old(buf)@.len();
}

#[verifier::external_trait_specification]
pub trait ExWrite {
    type ExternalTraitSpecificationFor: Write;
    fn write(&mut self, buf: &[u8]) -> Result<usize, IoError>;
    fn flush(&mut self) -> Result<(), IoError>;
    // write at the cursor; only the append case (cursor at end) is specified
    fn write_all(&mut self, buf: &[u8]) -> (r: Result<(), IoError>)
        ensures
            fview(final(self)).id == fview(old(self)).id,
            fview(old(self)).pos == fview(old(self)).data.len() ==> r is Ok
                && fview(final(self)).data == fview(old(self)).data + buf@
                && fview(final(self)).pos == fview(final(self)).data.len();
}

// set_len takes &File in std (interior mutation through the fd). We give it the &mut-style
// effect on the view of the *same handle value*: Verus keys fview on the value, so we model it
// through the wrapper truncate_file below, which owns a &mut File.
pub assume_specification [ File::sync_all ] (f: &File) -> (r: Result<(), IoError>) ensures r is Ok;
pub assume_specification<P: AsRef<Path>> [std::fs::create_dir_all] (p: P) -> (r: Result<(), IoError>) ensures r is Ok;
pub assume_specification<P: AsRef<Path>> [std::path::Path::join] (s: &Path, p: P) -> (r: PathBuf)
    ensures pid(&r) == pjoin(pid(s), nid(p));


pub assume_specification [ <PathBuf as std::ops::Deref>::deref ] (p: &PathBuf) -> (r: &Path)
    ensures pid(r) == pid(p);

pub const INDEX_ENTRY_SIZE: u64 = 12;
pub type FileId = u32;

pub struct Head {
    pub file: File,
    pub bytes: u64,
}

impl Head {
    pub fn new(file: File, bytes: u64) -> (r: Self) ensures r.file == file, r.bytes == bytes {
        Head { file, bytes }
    }
}

#[derive(Default)]
pub struct IndexEntry {
    pub file_id: FileId,
    pub offset: u64,
}

// ---- spec of the on-disk index format (12-byte LE records) ----
pub open spec fn le_u32(s: Seq<u8>) -> u32 { (s[0] as u32 | (s[1] as u32) << 8 | (s[2] as u32) << 16 | (s[3] as u32) << 24) as u32 }
pub uninterp spec fn dec_fid(s: Seq<u8>) -> u32;   // refined when decode itself is verified
pub uninterp spec fn dec_off(s: Seq<u8>) -> u64;
pub open spec fn entry_fid(idx: Seq<u8>, j: int) -> u32 { dec_fid(idx.subrange(12 * j, 12 * j + 12)) }
pub open spec fn entry_off(idx: Seq<u8>, j: int) -> u64 { dec_off(idx.subrange(12 * j, 12 * j + 12)) }
// data file identity for file id `k` under base directory `base`
pub open spec fn dfile(base: int, k: u32) -> int { pjoin(base, fname(k)) }
// entry j of index `idx` has all its data present on (pre-state) disk
pub open spec fn present(base: int, idx: Seq<u8>, j: int) -> bool {
    disk(dfile(base, entry_fid(idx, j))).len() >= entry_off(idx, j)
}

impl IndexEntry {
    #[verifier::external_body]
    pub fn encode(&self) -> Vec<u8> { unimplemented!() }
    #[verifier::external_body]
    pub fn decode(raw: &[u8]) -> (r: Result<Self, IoError>)
        ensures raw@.len() == 12 ==> r is Ok && r->Ok_0.file_id == dec_fid(raw@) && r->Ok_0.offset == dec_off(raw@)
    { unimplemented!() }
}

pub struct FreezerFilesBuilder {
    pub file_path: PathBuf,
    pub max_file_size: u64,
    pub enable_compression: bool,
    pub open_files_limit: usize,
}

pub struct Built { pub head: Head, pub index: File, pub number: u64, pub head_id: FileId, pub tail_id: FileId }

pub uninterp spec fn index_name() -> int;

impl FreezerFilesBuilder {
    pub open spec fn base(&self) -> int { pid(&self.file_path) }
    pub open spec fn index_id(&self) -> int { pjoin(self.base(), index_name()) }

    pub fn build(self) -> (res: Result<Built, IoError>)
        requires
            // index on disk: whole records, at least the tail marker, marker has offset 0
            disk(self.index_id()).len() >= 12,
            disk(self.index_id()).len() % 12 == 0,
            disk(self.index_id()).len() <= u64::MAX,
            entry_off(disk(self.index_id()), 0) == 0,
            forall|k: u32| disk(dfile(self.base(), k)).len() <= u64::MAX,
        ensures
            res is Ok,
            ({
                let b = res->Ok_0;
                let idx0 = disk(self.index_id());
                let n = b.number as int;
                &&& 1 <= n <= idx0.len() / 12
                &&& fview(&b.index).data == idx0.subrange(0, 12 * n)
                // the surviving last entry has its data, every dropped one did not
                &&& present(self.base(), idx0, n - 1)
                &&& forall|j: int| n <= j < idx0.len() / 12 ==> !present(self.base(), idx0, j)
                // head handle is the file of the last surviving entry, cut to its offset
                &&& b.head_id == entry_fid(idx0, n - 1)
                &&& fview(&b.head.file).id == dfile(self.base(), b.head_id)
                &&& fview(&b.head.file).data == disk(dfile(self.base(), b.head_id)).subrange(0, entry_off(idx0, n - 1) as int)
                &&& b.head.bytes == entry_off(idx0, n - 1)
            }),
    {
        fs::create_dir_all(&self.file_path)?;
        let (mut index, mut index_size) = self.open_index()?;

        let mut buffer = [0; INDEX_ENTRY_SIZE as usize];
        index.rewind()?;
        index.read_exact(&mut buffer)?;
        let tail_index = IndexEntry::decode(&buffer)?;
        let tail_id = tail_index.file_id;

        index.seek(SeekFrom::Start(index_size - INDEX_ENTRY_SIZE))?;
        index.read_exact(&mut buffer)?;

        let mut head_index = IndexEntry::decode(&buffer)?;

        proof {
            let idx0 = disk(self.index_id());
            let j = index_size as int / 12 - 1;
            assert(12 * j == index_size - 12) by(nonlinear_arith) requires index_size % 12 == 0, j == index_size as int / 12 - 1;
            assert(idx0.subrange(0, index_size as int).subrange(index_size - 12, index_size as int) =~= idx0.subrange(12 * j, 12 * j + 12));
        }
        let head_file_name = helper::file_name(head_index.file_id);
        let (mut head, mut head_size) = self.open_append(self.file_path.join(head_file_name))?;
        let mut expect_head_size = head_index.offset;

        // try repair cross checks the head and the index file and truncates them to
        // be in sync with each other after a potential crash/data loss.
        while expect_head_size != head_size
            invariant
                disk(self.index_id()).len() % 12 == 0,
                disk(self.index_id()).len() <= u64::MAX,
                entry_off(disk(self.index_id()), 0) == 0,
                forall|k: u32| disk(dfile(self.base(), k)).len() <= u64::MAX,
                12 <= index_size <= disk(self.index_id()).len(),
                index_size % 12 == 0,
                buffer@.len() == 12,
                fview(&index).data == disk(self.index_id()).subrange(0, index_size as int),
                head_index.file_id == entry_fid(disk(self.index_id()), index_size / 12 - 1),
                head_index.offset == entry_off(disk(self.index_id()), index_size / 12 - 1),
                expect_head_size == head_index.offset,
                fview(&head).id == dfile(self.base(), head_index.file_id),
                head_size == fview(&head).data.len(),
                // head still has its pre-state content, or has just been cut to expect (then loop ends)
                fview(&head).data == disk(dfile(self.base(), head_index.file_id))
                    || (head_size == expect_head_size && present(self.base(), disk(self.index_id()), index_size / 12 - 1)
                        && fview(&head).data == disk(dfile(self.base(), head_index.file_id)).subrange(0, expect_head_size as int)),
                forall|j: int| index_size / 12 <= j < disk(self.index_id()).len() / 12 ==> !present(self.base(), disk(self.index_id()), j),
            decreases index_size, (if expect_head_size < head_size { 1int } else { 0int }),
        {
            // truncate the head file to the last offset
            if expect_head_size < head_size {
                helper::truncate_file(&mut head, expect_head_size)?;
                head_size = expect_head_size;
            }

            // truncate the index to matching the head file
            if expect_head_size > head_size {
                helper::truncate_file(&mut index, index_size - INDEX_ENTRY_SIZE)?;
                index_size -= INDEX_ENTRY_SIZE;

                index.seek(SeekFrom::Start(index_size - INDEX_ENTRY_SIZE))?;
                index.read_exact(&mut buffer)?;
                let new_index = IndexEntry::decode(&buffer)?;

                proof {
                    let idx0 = disk(self.index_id());
                    let j = index_size as int / 12 - 1;
                    assert(12 * j == index_size - 12) by(nonlinear_arith) requires index_size % 12 == 0, j == index_size as int / 12 - 1;
                    assert(idx0.subrange(0, index_size as int).subrange(index_size - 12, index_size as int) =~= idx0.subrange(12 * j, 12 * j + 12));
                }

                // slipped back into an earlier head-file
                if new_index.file_id != head_index.file_id {
                    let head_file_name = helper::file_name(head_index.file_id);
                    let (new_head, size) = self.open_append(self.file_path.join(head_file_name))?;
                    head = new_head;
                    head_size = size;
                }
                expect_head_size = new_index.offset;
                head_index = new_index;
            }
        }

        // ensure flush to disk
        head.sync_all()?;
        index.sync_all()?;

        let number = index_size / INDEX_ENTRY_SIZE;

        Ok(Built {
            head: Head::new(head, head_size),
            tail_id,
            number: number,
            head_id: head_index.file_id,
            index,
        })
    }

    #[verifier::external_body]
    fn open_append<P: AsRef<Path>>(&self, path: P) -> (r: Result<(File, u64), IoError>)
        ensures r is Ok,
            fview(&r->Ok_0.0).id == pid(&path),
            fview(&r->Ok_0.0).data == disk(pid(&path)),
            fview(&r->Ok_0.0).pos == disk(pid(&path)).len(),
            r->Ok_0.1 == disk(pid(&path)).len(),
    {
        unimplemented!()
    }

    #[verifier::external_body]
    fn open_index(&self) -> (r: Result<(File, u64), IoError>)
        requires disk(self.index_id()).len() >= 12, disk(self.index_id()).len() % 12 == 0, disk(self.index_id()).len() <= u64::MAX,
        ensures r is Ok,
            fview(&r->Ok_0.0).data == disk(self.index_id()),
            r->Ok_0.1 == disk(self.index_id()).len(),
    {
        unimplemented!()
    }
}

pub mod helper {
    use super::*;

    #[verifier::external_body]
    pub fn truncate_file(file: &mut File, size: u64) -> (r: Result<(), IoError>)
        requires size <= fview(old(file)).data.len()
        ensures r is Ok,
            fview(final(file)).id == fview(old(file)).id,
            fview(final(file)).data == fview(old(file)).data.subrange(0, size as int),
            fview(final(file)).pos == size,
    {
        unimplemented!()
    }

    #[verifier::external_body]
    pub fn file_name(file_id: FileId) -> (r: String)
        ensures nid(r) == fname(file_id)
    {
        unimplemented!()
    }
}

}
fn main() {}
