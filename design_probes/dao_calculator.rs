use vstd::prelude::*;
verus! {
#[derive(Clone, Copy, PartialEq, Eq)]
pub struct Capacity(pub u64);
pub enum CapError { Overflow }
pub enum DaoError { InvalidHeader, InvalidOutPoint, InvalidDaoFormat, Overflow, ZeroC }
impl From<CapError> for DaoError { #[verifier::external_body] fn from(e: CapError) -> Self { unimplemented!() } }
impl Capacity {
    #[verifier::external_body] pub const fn shannons(val: u64) -> (r: Self) ensures r.0 == val { Capacity(val) }
    #[verifier::external_body] pub const fn zero() -> (r: Self) ensures r.0 == 0 { Capacity(0) }
    #[verifier::external_body] pub fn as_u64(self) -> (r: u64) ensures r == self.0 { self.0 }
    #[verifier::external_body] pub fn safe_add(self, rhs: Capacity) -> (r: Result<Self, CapError>)
        ensures self.0 + rhs.0 <= u64::MAX ==> r is Ok && r->Ok_0.0 == self.0 + rhs.0, self.0 + rhs.0 > u64::MAX ==> r is Err { unimplemented!() }
    #[verifier::external_body] pub fn safe_sub(self, rhs: Capacity) -> (r: Result<Self, CapError>)
        ensures self.0 >= rhs.0 ==> r is Ok && r->Ok_0.0 == self.0 - rhs.0, self.0 < rhs.0 ==> r is Err { unimplemented!() }
}
#[verifier::external_body] pub struct Byte32 { x: u64 }
#[verifier::external_body] pub struct HeaderView { x: u64 }
#[verifier::external_body] pub struct RawHeader { x: u64 }
#[verifier::external_body] pub struct Header { x: u64 }
#[verifier::external_body] pub struct CellOutput { x: u64 }
#[verifier::external_body] pub struct PUint64 { x: u64 }
#[verifier::external_body] pub struct Consensus { x: u64 }
#[verifier::external_body] pub struct EpochExt { x: u64 }
pub struct Dao { pub ar: u64, pub c: u64, pub s: u64, pub u: u64 }
pub uninterp spec fn dao_of(b: Byte32) -> Dao;
pub uninterp spec fn h_number(h: &HeaderView) -> u64;
pub uninterp spec fn h_dao(h: &HeaderView) -> Dao;
pub uninterp spec fn h_parent(h: &HeaderView) -> Byte32;
pub uninterp spec fn out_capacity(o: &CellOutput) -> u64;
pub uninterp spec fn out_occupied(o: &CellOutput, data: u64) -> Option<u64>;
pub uninterp spec fn g2(e: &EpochExt, n: u64, total: u64) -> Option<u64>;
pub uninterp spec fn sec_reward(c: &Consensus) -> u64;
#[verifier::external_body]
pub fn extract_dao_data(dao: Byte32) -> (r: (u64, Capacity, Capacity, Capacity))
    ensures r.0 == dao_of(dao).ar, r.1.0 == dao_of(dao).c, r.2.0 == dao_of(dao).s, r.3.0 == dao_of(dao).u { unimplemented!() }
impl HeaderView {
    #[verifier::external_body] pub fn number(&self) -> (r: u64) ensures r == h_number(self) { unimplemented!() }
    #[verifier::external_body] pub fn dao(&self) -> (r: Byte32) ensures dao_of(r) == h_dao(self) { unimplemented!() }
    #[verifier::external_body] pub fn data(&self) -> (r: Header) ensures hdr_parent(&r) == h_parent(self) { unimplemented!() }
}
pub uninterp spec fn hdr_parent(h: &Header) -> Byte32;
pub uninterp spec fn raw_parent(h: &RawHeader) -> Byte32;
impl Header { #[verifier::external_body] pub fn raw(&self) -> (r: RawHeader) ensures raw_parent(&r) == hdr_parent(self) { unimplemented!() } }
impl RawHeader { #[verifier::external_body] pub fn parent_hash(&self) -> (r: Byte32) ensures r == raw_parent(self) { unimplemented!() } }
impl From<PUint64> for Capacity { #[verifier::external_body] fn from(x: PUint64) -> (r: Capacity) ensures r.0 == pu64(x) { unimplemented!() } }
pub uninterp spec fn pu64(x: PUint64) -> u64;
impl CellOutput {
    #[verifier::external_body] pub fn capacity(&self) -> (r: PUint64) ensures pu64(r) == out_capacity(self) { unimplemented!() }
    #[verifier::external_body] pub fn occupied_capacity(&self, data: Capacity) -> (r: Result<Capacity, CapError>)
        ensures match out_occupied(self, data.0) { Some(v) => r is Ok && r->Ok_0.0 == v, None => r is Err } { unimplemented!() }
}
impl EpochExt {
    #[verifier::external_body] pub fn secondary_block_issuance(&self, n: u64, total: Capacity) -> (r: Result<Capacity, CapError>)
        ensures match g2(self, n, total.0) { Some(v) => r is Ok && r->Ok_0.0 == v, None => r is Err } { unimplemented!() }
}
impl Consensus { #[verifier::external_body] pub fn secondary_epoch_reward(&self) -> (r: Capacity) ensures r.0 == sec_reward(self) { unimplemented!() } }

pub trait HeaderProvider { spec fn hdr(&self, h: &Byte32) -> Option<HeaderView>;
    fn get_header(&self, hash: &Byte32) -> (r: Option<HeaderView>) ensures r == self.hdr(hash); }
pub trait EpochProvider { spec fn ep(&self, h: &HeaderView) -> Option<EpochExt>;
    fn get_epoch_ext(&self, h: &HeaderView) -> (r: Option<EpochExt>) ensures r == self.ep(h); }
pub trait CellDataProvider {}

pub struct DaoCalculator<'a, DL> { pub consensus: &'a Consensus, pub data_loader: &'a DL }
impl<'a, DL: CellDataProvider + HeaderProvider> DaoCalculator<'a, DL> {
    /// Calculate maximum withdraw capacity of a deposited dao output
    pub fn calculate_maximum_withdraw(
        &self,
        output: &CellOutput,
        output_data_capacity: Capacity,
        deposit_header_hash: &Byte32,
        withdrawing_header_hash: &Byte32,
    ) -> (r: Result<Capacity, DaoError>)
        requires
            self.data_loader.hdr(deposit_header_hash) matches Some(d) ==> h_dao(&d).ar > 0,
        ensures
            r matches Ok(w) ==> ({
                let d = self.data_loader.hdr(deposit_header_hash)->Some_0;
                let wd = self.data_loader.hdr(withdrawing_header_hash)->Some_0;
                let occ = out_occupied(output, output_data_capacity.0)->Some_0;
                let counted = out_capacity(output) - occ;
                &&& self.data_loader.hdr(deposit_header_hash) is Some && self.data_loader.hdr(withdrawing_header_hash) is Some
                &&& h_number(&d) < h_number(&wd)
                &&& out_capacity(output) >= occ
                // the property: counted_capacity * AR_withdraw / AR_deposit (+ the occupied part, returned untouched)
                &&& (counted as int * h_dao(&wd).ar as int) / (h_dao(&d).ar as int) <= u64::MAX ==> w.0 as int == (counted as int * h_dao(&wd).ar as int) / (h_dao(&d).ar as int) + occ
            }),
    {
        let deposit_header = self
            .data_loader
            .get_header(deposit_header_hash)
            .ok_or(DaoError::InvalidHeader)?;
        let withdrawing_header = self
            .data_loader
            .get_header(withdrawing_header_hash)
            .ok_or(DaoError::InvalidHeader)?;
        if deposit_header.number() >= withdrawing_header.number() {
            return Err(DaoError::InvalidOutPoint);
        }

        let (deposit_ar, _, _, _) = extract_dao_data(deposit_header.dao());
        let (withdrawing_ar, _, _, _) = extract_dao_data(withdrawing_header.dao());

        let occupied_capacity = output.occupied_capacity(output_data_capacity)?;
        let output_capacity: Capacity = output.capacity().into();
        let counted_capacity = output_capacity.safe_sub(occupied_capacity)?;
        let withdraw_counted_capacity = u128::from(counted_capacity.as_u64())
            * u128::from(withdrawing_ar)
            / u128::from(deposit_ar);
        let withdraw_capacity =
            Capacity::shannons(withdraw_counted_capacity as u64).safe_add(occupied_capacity)?;

        Ok(withdraw_capacity)
    }
}
impl<'a, DL: CellDataProvider + EpochProvider + HeaderProvider> DaoCalculator<'a, DL> {
    /// Returns the secondary block reward for `target` block.
    pub fn secondary_block_reward(&self, target: &HeaderView) -> Result<Capacity, DaoError> {
        if target.number() == 0 {
            return Ok(Capacity::zero());
        }

        let target_parent_hash = target.data().raw().parent_hash();
        let target_parent = self
            .data_loader
            .get_header(&target_parent_hash)
            .ok_or(DaoError::InvalidHeader)?;
        let target_epoch = self
            .data_loader
            .get_epoch_ext(target)
            .ok_or(DaoError::InvalidHeader)?;

        let target_g2 = target_epoch
            .secondary_block_issuance(target.number(), self.consensus.secondary_epoch_reward())?;
        let (_, target_parent_c, _, target_parent_u) = extract_dao_data(target_parent.dao());
        let reward128 = u128::from(target_g2.as_u64()) * u128::from(target_parent_u.as_u64())
            / u128::from(target_parent_c.as_u64());
        let reward = u64::try_from(reward128).map_err(|_e| DaoError::Overflow)?;
        Ok(Capacity::shannons(reward))
    }

}
}
fn main(){}
