use vstd::prelude::*;
use std::cmp;
use std::cmp::Ordering;
use vstd::std_specs::cmp::OrdSpec;
verus! {
pub type BlockNumber = u64;
#[verifier::external_body] pub struct U256 { x: [u64; 4] }
#[verifier::external_body] pub struct RationalU256 { x: [u64; 8] }
#[verifier::external_body] pub struct Byte32 { x: u64 }
#[verifier::external_body] pub struct HeaderView { x: u64 }
#[verifier::external_body] pub struct Consensus { x: u64 }
#[derive(Clone, Copy, PartialEq, Eq)] pub struct Capacity(pub u64);
impl<'a> vstd::std_specs::ops::MulSpecImpl<u64> for &'a U256 {
    open spec fn obeys_mul_spec() -> bool { false }
    open spec fn mul_req(self, rhs: u64) -> bool { true }
    open spec fn mul_spec(self, rhs: u64) -> U256 { arbitrary() }
}
impl<'a> std::ops::Mul<u64> for &'a U256 {
    type Output = U256;
    #[verifier::external_body] fn mul(self, rhs: u64) -> U256 { unimplemented!() }
}
impl<'a> vstd::std_specs::ops::DivSpecImpl<&'a U256> for U256 {
    open spec fn obeys_div_spec() -> bool { false }
    open spec fn div_req(self, rhs: &'a U256) -> bool { true }
    open spec fn div_spec(self, rhs: &'a U256) -> U256 { arbitrary() }
}
impl<'a> std::ops::Div<&'a U256> for U256 {
    type Output = U256;
    #[verifier::external_body] fn div(self, rhs: &'a U256) -> U256 { unimplemented!() }
}
impl<'a> vstd::std_specs::ops::MulSpecImpl<RationalU256> for &'a RationalU256 {
    open spec fn obeys_mul_spec() -> bool { false }
    open spec fn mul_req(self, rhs: RationalU256) -> bool { true }
    open spec fn mul_spec(self, rhs: RationalU256) -> RationalU256 { arbitrary() }
}
impl<'a> std::ops::Mul<RationalU256> for &'a RationalU256 {
    type Output = RationalU256;
    #[verifier::external_body] fn mul(self, rhs: RationalU256) -> RationalU256 { unimplemented!() }
}
impl<'a> vstd::std_specs::ops::AddSpecImpl<U256> for &'a RationalU256 {
    open spec fn obeys_add_spec() -> bool { false }
    open spec fn add_req(self, rhs: U256) -> bool { true }
    open spec fn add_spec(self, rhs: U256) -> RationalU256 { arbitrary() }
}
impl<'a> std::ops::Add<U256> for &'a RationalU256 {
    type Output = RationalU256;
    #[verifier::external_body] fn add(self, rhs: U256) -> RationalU256 { unimplemented!() }
}
impl<'a> vstd::std_specs::ops::MulSpecImpl<&'a U256> for RationalU256 {
    open spec fn obeys_mul_spec() -> bool { false }
    open spec fn mul_req(self, rhs: &'a U256) -> bool { true }
    open spec fn mul_spec(self, rhs: &'a U256) -> RationalU256 { arbitrary() }
}
impl<'a> std::ops::Mul<&'a U256> for RationalU256 {
    type Output = RationalU256;
    #[verifier::external_body] fn mul(self, rhs: &'a U256) -> RationalU256 { unimplemented!() }
}
impl vstd::std_specs::ops::DivSpecImpl<RationalU256> for RationalU256 {
    open spec fn obeys_div_spec() -> bool { false }
    open spec fn div_req(self, rhs: RationalU256) -> bool { true }
    open spec fn div_spec(self, rhs: RationalU256) -> RationalU256 { arbitrary() }
}
impl std::ops::Div<RationalU256> for RationalU256 {
    type Output = RationalU256;
    #[verifier::external_body] fn div(self, rhs: RationalU256) -> RationalU256 { unimplemented!() }
}
impl vstd::std_specs::ops::MulSpecImpl<U256> for RationalU256 {
    open spec fn obeys_mul_spec() -> bool { false }
    open spec fn mul_req(self, rhs: U256) -> bool { true }
    open spec fn mul_spec(self, rhs: U256) -> RationalU256 { arbitrary() }
}
impl std::ops::Mul<U256> for RationalU256 {
    type Output = RationalU256;
    #[verifier::external_body] fn mul(self, rhs: U256) -> RationalU256 { unimplemented!() }
}
impl vstd::std_specs::ops::AddSpecImpl<U256> for RationalU256 {
    open spec fn obeys_add_spec() -> bool { false }
    open spec fn add_req(self, rhs: U256) -> bool { true }
    open spec fn add_spec(self, rhs: U256) -> RationalU256 { arbitrary() }
}
impl std::ops::Add<U256> for RationalU256 {
    type Output = RationalU256;
    #[verifier::external_body] fn add(self, rhs: U256) -> RationalU256 { unimplemented!() }
}
impl<'a> vstd::std_specs::ops::MulSpecImpl<&'a U256> for &'a RationalU256 {
    open spec fn obeys_mul_spec() -> bool { false }
    open spec fn mul_req(self, rhs: &'a U256) -> bool { true }
    open spec fn mul_spec(self, rhs: &'a U256) -> RationalU256 { arbitrary() }
}
impl<'a> std::ops::Mul<&'a U256> for &'a RationalU256 {
    type Output = RationalU256;
    #[verifier::external_body] fn mul(self, rhs: &'a U256) -> RationalU256 { unimplemented!() }
}

pub uninterp spec fn uval(u: &U256) -> nat;
impl U256 {
    #[verifier::external_body] pub fn one() -> (r: U256) ensures uval(&r) == 1 { unimplemented!() }
    #[verifier::external_body] pub fn zero() -> (r: U256) ensures uval(&r) == 0 { unimplemented!() }
}
impl Clone for U256 { #[verifier::external_body] fn clone(&self) -> (r: U256) ensures r == *self { unimplemented!() } }
impl From<u64> for U256 { #[verifier::external_body] fn from(v: u64) -> (r: U256) ensures uval(&r) == v { unimplemented!() } }
impl PartialEq for U256 { #[verifier::external_body] fn eq(&self, o: &U256) -> (r: bool) ensures r == (uval(self) == uval(o)) { unimplemented!() } }
impl Eq for U256 {}
impl PartialOrd for U256 { #[verifier::external_body] fn partial_cmp(&self, o: &U256) -> Option<Ordering> { unimplemented!() } }
impl Ord for U256 { #[verifier::external_body] fn cmp(&self, o: &U256) -> Ordering { unimplemented!() } }
impl PartialEq for RationalU256 { #[verifier::external_body] fn eq(&self, o: &RationalU256) -> bool { unimplemented!() } }
impl PartialOrd for RationalU256 { #[verifier::external_body] fn partial_cmp(&self, o: &RationalU256) -> Option<Ordering> { unimplemented!() } }
impl RationalU256 {
    #[verifier::external_body] pub fn new(n: U256, d: U256) -> RationalU256 { unimplemented!() }
    #[verifier::external_body] pub fn one() -> RationalU256 { unimplemented!() }
    #[verifier::external_body] pub fn is_zero(&self) -> bool { unimplemented!() }
    #[verifier::external_body] pub fn into_u256(self) -> U256 { unimplemented!() }
    #[verifier::external_body] pub fn saturating_sub_u256(self, rhs: U256) -> RationalU256 { unimplemented!() }
}
pub assume_specification<T: Ord> [std::cmp::min] (a: T, b: T) -> (r: T)
    ensures r == a || r == b,
        T::obeys_cmp_spec() ==> (a.cmp_spec(&b) == Ordering::Greater ==> r == b) && (a.cmp_spec(&b) != Ordering::Greater ==> r == a);
pub assume_specification<T: Ord> [std::cmp::max] (a: T, b: T) -> (r: T)
    ensures r == a || r == b,
        T::obeys_cmp_spec() ==> (a.cmp_spec(&b) == Ordering::Greater ==> r == a) && (a.cmp_spec(&b) != Ordering::Greater ==> r == b);
pub assume_specification<T: Clone> [<T as std::borrow::ToOwned>::to_owned] (t: &T) -> (r: T);
pub assume_specification [u64::div_ceil] (a: u64, b: u64) -> (r: u64)
    requires b > 0
    ensures r as int == (a as int + b as int - 1) / (b as int);
#[verifier::external_body] fn u256_low_u64(u: U256) -> u64 { unimplemented!() }
#[verifier::external_body] pub fn difficulty_to_compact(d: U256) -> u32 { unimplemented!() }
impl Capacity {
    #[verifier::external_body] pub const fn shannons(val: u64) -> (r: Self) ensures r.0 == val { Capacity(val) }
    #[verifier::external_body] pub fn as_u64(self) -> (r: u64) ensures r == self.0 { self.0 }
}
impl HeaderView {
    #[verifier::external_body] pub fn number(&self) -> (r: u64) ensures r == h_number(self) { unimplemented!() }
    #[verifier::external_body] pub fn hash(&self) -> Byte32 { unimplemented!() }
    #[verifier::external_body] pub fn difficulty(&self) -> U256 { unimplemented!() }
}
pub uninterp spec fn h_number(h: &HeaderView) -> u64;

pub struct EpochExt {
    pub number: u64, pub base_block_reward: Capacity, pub remainder_reward: Capacity, pub previous_epoch_hash_rate: U256,
    pub last_block_hash_in_previous_epoch: Byte32, pub start_number: BlockNumber, pub length: BlockNumber, pub compact_target: u32,
}
pub struct EpochExtBuilder(pub EpochExt);
impl Clone for EpochExt { #[verifier::external_body] fn clone(&self) -> (r: EpochExt) ensures r == *self { unimplemented!() } }
impl EpochExt {
    #[verifier::external_body] pub fn new_builder() -> EpochExtBuilder { unimplemented!() }
    pub fn into_builder(self) -> (r: EpochExtBuilder) ensures r.0 == self { EpochExtBuilder(self) }
    pub fn number(&self) -> (r: u64) ensures r == self.number { self.number }
    pub fn length(&self) -> (r: u64) ensures r == self.length { self.length }
    #[verifier::external_body] pub fn previous_epoch_hash_rate(&self) -> (r: &U256) ensures *r == self.previous_epoch_hash_rate { unimplemented!() }
}
impl EpochExtBuilder {
    #[verifier::external_body] pub fn number(self, v: u64) -> (r: Self) ensures r.0 == (EpochExt { number: v, ..self.0 }) { unimplemented!() }
    #[verifier::external_body] pub fn base_block_reward(self, v: Capacity) -> (r: Self) ensures r.0 == (EpochExt { base_block_reward: v, ..self.0 }) { unimplemented!() }
    #[verifier::external_body] pub fn remainder_reward(self, v: Capacity) -> (r: Self) ensures r.0 == (EpochExt { remainder_reward: v, ..self.0 }) { unimplemented!() }
    #[verifier::external_body] pub fn previous_epoch_hash_rate(self, v: U256) -> (r: Self) ensures r.0 == (EpochExt { previous_epoch_hash_rate: v, ..self.0 }) { unimplemented!() }
    #[verifier::external_body] pub fn last_block_hash_in_previous_epoch(self, v: Byte32) -> (r: Self) ensures r.0 == (EpochExt { last_block_hash_in_previous_epoch: v, ..self.0 }) { unimplemented!() }
    #[verifier::external_body] pub fn start_number(self, v: u64) -> (r: Self) ensures r.0 == (EpochExt { start_number: v, ..self.0 }) { unimplemented!() }
    #[verifier::external_body] pub fn length(self, v: u64) -> (r: Self) ensures r.0 == (EpochExt { length: v, ..self.0 }) { unimplemented!() }
    #[verifier::external_body] pub fn compact_target(self, v: u32) -> (r: Self) ensures r.0 == (EpochExt { compact_target: v, ..self.0 }) { unimplemented!() }
    pub fn build(self) -> (r: EpochExt) ensures r == self.0 { self.0 }
}
pub enum BlockEpoch {
    TailBlock { epoch: EpochExt, epoch_uncles_count: u64, epoch_duration_in_milliseconds: u64 },
    NonTailBlock { epoch: EpochExt },
}
pub enum NextBlockEpoch { HeadBlock(EpochExt), NonHeadBlock(EpochExt) }
pub trait EpochProvider {
    spec fn be(&self, h: &HeaderView) -> Option<BlockEpoch>;
    fn get_block_epoch(&self, header: &HeaderView) -> (r: Option<BlockEpoch>) ensures r == self.be(header);
}
pub const MAX_EPOCH_LENGTH: u64 = 1800;
pub const MIN_EPOCH_LENGTH: u64 = 300;
pub const MIN_BLOCK_INTERVAL: u64 = 8;
pub const MILLISECONDS_IN_A_SECOND: u64 = 1000;
pub const TAU: u64 = 2;
impl Consensus {
    #[verifier::external_body] pub fn permanent_difficulty(&self) -> bool { unimplemented!() }
    #[verifier::external_body] pub fn epoch_duration_target(&self) -> u64 { unimplemented!() }
    #[verifier::external_body] pub fn orphan_rate_target(&self) -> &RationalU256 { unimplemented!() }
    #[verifier::external_body] fn primary_epoch_reward_of_next_epoch(&self, epoch: &EpochExt) -> Capacity { unimplemented!() }
    #[verifier::external_body] fn bounding_hash_rate(&self, a: U256, b: U256) -> U256 { unimplemented!() }
    pub fn max_epoch_length(&self) -> (r: BlockNumber) ensures r == MAX_EPOCH_LENGTH { MAX_EPOCH_LENGTH }
    pub fn min_epoch_length(&self) -> (r: BlockNumber) ensures r == MIN_EPOCH_LENGTH { MIN_EPOCH_LENGTH }
    #[verifier::external_body]
    fn bounding_epoch_length(&self, length: BlockNumber, last_epoch_length: BlockNumber) -> (r: (BlockNumber, bool))
        ensures MIN_EPOCH_LENGTH <= last_epoch_length <= MAX_EPOCH_LENGTH ==> MIN_EPOCH_LENGTH <= r.0 <= MAX_EPOCH_LENGTH && last_epoch_length / 2 <= r.0 <= last_epoch_length * 2
    { unimplemented!() }
    pub fn next_epoch_ext<P: EpochProvider>(
        &self,
        header: &HeaderView,
        provider: &P,
    ) -> Option<NextBlockEpoch> {
        provider
            .get_block_epoch(header)
            .map(|block_epoch| match block_epoch {
                BlockEpoch::NonTailBlock { epoch } => NextBlockEpoch::NonHeadBlock(epoch),
                BlockEpoch::TailBlock {
                    epoch,
                    epoch_uncles_count,
                    epoch_duration_in_milliseconds,
                } => {
                    if self.permanent_difficulty() {
                        let next_epoch_length =
                            self.epoch_duration_target().div_ceil(MIN_BLOCK_INTERVAL);
                        let primary_epoch_reward =
                            self.primary_epoch_reward_of_next_epoch(&epoch).as_u64();
                        let block_reward =
                            Capacity::shannons(primary_epoch_reward / next_epoch_length);
                        let remainder_reward =
                            Capacity::shannons(primary_epoch_reward % next_epoch_length);

                        let dummy_epoch_ext = epoch
                            .clone()
                            .into_builder()
                            .base_block_reward(block_reward)
                            .remainder_reward(remainder_reward)
                            .number(epoch.number() + 1)
                            .last_block_hash_in_previous_epoch(header.hash())
                            .start_number(header.number() + 1)
                            .length(next_epoch_length)
                            .build();
                        NextBlockEpoch::HeadBlock(dummy_epoch_ext)
                    } else {
                        // (1) Computing the Adjusted Hash Rate Estimation
                        let last_difficulty = &header.difficulty();
                        let last_epoch_duration = U256::from(cmp::max(
                            epoch_duration_in_milliseconds / MILLISECONDS_IN_A_SECOND,
                            1,
                        ));

                        let last_epoch_hash_rate = core::ops::Div::div(core::ops::Mul::mul(last_difficulty, (epoch.length() + epoch_uncles_count)), &last_epoch_duration);

                        let adjusted_last_epoch_hash_rate = cmp::max(
                            self.bounding_hash_rate(
                                last_epoch_hash_rate,
                                epoch.previous_epoch_hash_rate().to_owned(),
                            ),
                            U256::one(),
                        );

                        // (2) Computing the Next Epoch’s Main Chain Block Number
                        let orphan_rate_target = self.orphan_rate_target();
                        let epoch_duration_target = self.epoch_duration_target();
                        let epoch_duration_target_u256 = U256::from(self.epoch_duration_target());
                        let last_epoch_length_u256 = U256::from(epoch.length());
                        let last_orphan_rate = RationalU256::new(
                            U256::from(epoch_uncles_count),
                            last_epoch_length_u256.clone(),
                        );

                        let (next_epoch_length, bound) = if epoch_uncles_count == 0 {
                            (
                                cmp::min(self.max_epoch_length(), epoch.length() * TAU),
                                true,
                            )
                        } else {
                            // o_ideal * (1 + o_i ) * L_ideal * C_i,m
                            let numerator = core::ops::Mul::mul(core::ops::Mul::mul(core::ops::Mul::mul(orphan_rate_target, core::ops::Add::add(&last_orphan_rate, U256::one())), &epoch_duration_target_u256), &last_epoch_length_u256);
                            // o_i * (1 + o_ideal ) * L_i
                            let denominator = core::ops::Mul::mul(core::ops::Mul::mul(&last_orphan_rate, core::ops::Add::add(orphan_rate_target, U256::one())), &last_epoch_duration);
                            let raw_next_epoch_length =
                                u256_low_u64(core::ops::Div::div(numerator, denominator).into_u256());

                            self.bounding_epoch_length(raw_next_epoch_length, epoch.length())
                        };

                        // (3) Determining the Next Epoch’s Difficulty
                        let next_epoch_length_u256 = U256::from(next_epoch_length);
                        let diff_numerator = RationalU256::new(
                            core::ops::Mul::mul(&adjusted_last_epoch_hash_rate, epoch_duration_target),
                            U256::one(),
                        );
                        let diff_denominator = if bound {
                            if last_orphan_rate.is_zero() {
                                RationalU256::new(next_epoch_length_u256, U256::one())
                            } else {
                                let orphan_rate_estimation_recip = core::ops::Div::div(core::ops::Mul::mul(core::ops::Mul::mul(core::ops::Add::add(&last_orphan_rate, U256::one()), &epoch_duration_target_u256), &last_epoch_length_u256), core::ops::Mul::mul(core::ops::Mul::mul(&last_orphan_rate, &last_epoch_duration), &next_epoch_length_u256))
                                    .saturating_sub_u256(U256::one());

                                if orphan_rate_estimation_recip.is_zero() {
                                    // small probability event, use o_ideal for now
                                    core::ops::Mul::mul(core::ops::Add::add(orphan_rate_target, U256::one()), next_epoch_length_u256)
                                } else {
                                    let orphan_rate_estimation =
                                        core::ops::Div::div(RationalU256::one(), orphan_rate_estimation_recip);
                                    core::ops::Mul::mul(core::ops::Add::add(orphan_rate_estimation, U256::one()), next_epoch_length_u256)
                                }
                            }
                        } else {
                            core::ops::Mul::mul(core::ops::Add::add(orphan_rate_target, U256::one()), next_epoch_length_u256)
                        };

                        let next_epoch_diff = if diff_numerator > diff_denominator {
                            core::ops::Div::div(diff_numerator, diff_denominator).into_u256()
                        } else {
                            // next_epoch_diff cannot be zero
                            U256::one()
                        };

                        let primary_epoch_reward =
                            self.primary_epoch_reward_of_next_epoch(&epoch).as_u64();
                        let block_reward =
                            Capacity::shannons(primary_epoch_reward / next_epoch_length);
                        let remainder_reward =
                            Capacity::shannons(primary_epoch_reward % next_epoch_length);

                        let epoch_ext = EpochExt::new_builder()
                            .number(epoch.number() + 1)
                            .base_block_reward(block_reward)
                            .remainder_reward(remainder_reward)
                            .previous_epoch_hash_rate(adjusted_last_epoch_hash_rate)
                            .last_block_hash_in_previous_epoch(header.hash())
                            .start_number(header.number() + 1)
                            .length(next_epoch_length)
                            .compact_target(difficulty_to_compact(next_epoch_diff))
                            .build();

                        NextBlockEpoch::HeadBlock(epoch_ext)
                    }
                }
            })
    }

}
}
fn main(){}
