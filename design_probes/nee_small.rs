use vstd::prelude::*;
use std::ops::{Mul, Div, Add};
verus! {

#[verifier::external_body] pub struct U256 { x: [u64; 4] }
#[verifier::external_body] pub struct RationalU256 { n: [u64; 4], d: [u64;4] }
pub uninterp spec fn uval(u: &U256) -> nat;

impl Mul<u64> for &U256 {
    type Output = U256;
    #[verifier::external_body]
    fn mul(self, rhs: u64) -> U256 { unimplemented!() }
}
impl Div<&U256> for U256 {
    type Output = U256;
    #[verifier::external_body]
    fn div(self, rhs: &U256) -> U256 { unimplemented!() }
}
impl Add<U256> for &RationalU256 {
    type Output = RationalU256;
    #[verifier::external_body]
    fn add(self, rhs: U256) -> RationalU256 { unimplemented!() }
}
impl U256 {
    #[verifier::external_body] pub fn one() -> (r: U256) ensures uval(&r) == 1 { unimplemented!() }
}
impl RationalU256 {
    #[verifier::external_body] pub fn into_u256(self) -> U256 { unimplemented!() }
}
#[verifier::external_body]
fn u256_low_u64(u: U256) -> u64 { unimplemented!() }

pub enum BlockEpoch {
    TailBlock { epoch: u64, epoch_uncles_count: u64, epoch_duration_in_milliseconds: u64 },
    NonTailBlock { epoch: u64 },
}
pub enum NextBlockEpoch { HeadBlock(u64), NonHeadBlock(u64) }

pub trait EpochProvider {
    spec fn be(&self, h: u64) -> Option<BlockEpoch>;
    fn get_block_epoch(&self, header: u64) -> (r: Option<BlockEpoch>) ensures r == self.be(header);
}

fn next<P: EpochProvider>(header: u64, diff: &U256, rate: &RationalU256, provider: &P) -> (r: Option<NextBlockEpoch>)
    ensures r matches Some(NextBlockEpoch::HeadBlock(l)) ==> 300 <= l <= 1800
{
    provider
        .get_block_epoch(header)
        .map(|block_epoch| -> (o: NextBlockEpoch) ensures o matches NextBlockEpoch::HeadBlock(l) ==> 300 <= l <= 1800 { match block_epoch {
            BlockEpoch::NonTailBlock { epoch } => NextBlockEpoch::NonHeadBlock(epoch),
            BlockEpoch::TailBlock { epoch, epoch_uncles_count, epoch_duration_in_milliseconds } => {
                let x = diff * (epoch_uncles_count) / &U256::one();
                let raw = u256_low_u64((rate + x).into_u256());
                let l = if raw > 1800 { 1800 } else if raw < 300 { 300 } else { raw };
                NextBlockEpoch::HeadBlock(l)
            }
        }})
}

}
fn main() {}
