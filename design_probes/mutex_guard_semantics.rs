use vstd::prelude::*;
use std::ops::{Deref, DerefMut};
verus! {
pub struct Inner { pub n: u64, pub tip: Option<u64> }
impl Inner {
    pub fn bump(&mut self)
        requires old(self).n < 100
        ensures final(self).n == old(self).n + 1, final(self).tip == old(self).tip
    { self.n = self.n + 1; }
}
#[verifier::external_body] #[verifier::reject_recursive_types(T)] pub struct Mutex<T> { t: T }
#[verifier::external_body] #[verifier::reject_recursive_types(T)] pub struct MutexGuard<'a, T> { t: &'a mut T }
pub uninterp spec fn gv<'a, T>(g: &MutexGuard<'a, T>) -> T;
impl<T> Mutex<T> {
    #[verifier::external_body] pub fn lock(&self) -> MutexGuard<'_, T> { unimplemented!() }
}
impl<'a, T> Deref for MutexGuard<'a, T> { type Target = T;
    #[verifier::external_body] fn deref(&self) -> (r: &T) ensures *r == gv(self) { unimplemented!() } }
impl<'a, T> DerefMut for MutexGuard<'a, T> {
    #[verifier::external_body] fn deref_mut(&mut self) -> (r: &mut T) ensures *r == gv(old(self)), gv(final(self)) == *final(r) { unimplemented!() } }

pub struct Freezer { pub inner: Mutex<Inner> }
impl Freezer {
    fn f(&self) -> (r: u64)
    {
        let mut guard = self.inner.lock();
        guard.n = 5;
        guard.tip = Some(3);
        guard.bump();
        let x = guard.n;
        assert(x == 6);
        x
    }
}
}
fn main() {}
