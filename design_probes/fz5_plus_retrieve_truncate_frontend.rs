use vstd::prelude::*;
use std::fs::{self, File};
use std::io::Error as IoError;
use std::io::{Read, Write, Seek, SeekFrom};
use std::path::{Path, PathBuf};

verus! {

// ---------------- ASSUMED: std::fs as an abstract file system -----------------
#[verifier::external_type_specification] #[verifier::external_body] pub struct ExFile(File);
#[verifier::external_type_specification] #[verifier::external_body] pub struct ExIoError(IoError);
#[verifier::external_type_specification] pub struct ExSeekFrom(SeekFrom);
#[verifier::external_type_specification] #[verifier::external_body] pub struct ExPathBuf(PathBuf);
#[verifier::external_type_specification] #[verifier::external_body] pub struct ExPath(Path);

pub struct FileView { pub id: int, pub data: Seq<u8>, pub pos: int }
pub uninterp spec fn fview<T: ?Sized>(f: &T) -> FileView;
// pre-state content of the file with identity `id`
pub uninterp spec fn disk(id: int) -> Seq<u8>;
#[verifier::external_body]
pub broadcast proof fn axiom_ref_view(f: &File)
    ensures #[trigger] fview::<&File>(&f) == fview::<File>(f)
{}
// identity of a path value / of a file name value
pub uninterp spec fn pid<T: ?Sized>(p: &T) -> int;
pub uninterp spec fn nid<T>(p: T) -> int;
pub uninterp spec fn pjoin(base: int, name: int) -> int;
pub uninterp spec fn fname(id: u32) -> int;

#[verifier::external_trait_specification]
pub trait ExSeek {
    type ExternalTraitSpecificationFor: Seek;
    fn seek(&mut self, pos: SeekFrom) -> (r: Result<u64, IoError>)
        ensures
            fview(final(self)).data == fview(old(self)).data,
            fview(final(self)).id == fview(old(self)).id,
            match pos {
                SeekFrom::Start(n) => r is Ok && fview(final(self)).pos == n as int,
                SeekFrom::End(k) => (fview(old(self)).data.len() + k >= 0 && fview(old(self)).data.len() + k <= u64::MAX) ==> r is Ok && fview(final(self)).pos == fview(old(self)).data.len() + k,
                SeekFrom::Current(k) => true,
            },
            r is Ok ==> r->Ok_0 as int == fview(final(self)).pos;
    fn rewind(&mut self) -> (r: Result<(), IoError>)
        ensures
            fview(final(self)).data == fview(old(self)).data,
            fview(final(self)).id == fview(old(self)).id,
            r is Ok, fview(final(self)).pos == 0;
}

#[verifier::external_trait_specification]
pub trait ExRead {
    type ExternalTraitSpecificationFor: Read;
    fn read(&mut self, buf: &mut [u8]) -> Result<usize, IoError>;
    fn read_exact(&mut self, buf: &mut [u8]) -> (r: Result<(), IoError>)
        ensures
            fview(final(self)).data == fview(old(self)).data,
            fview(final(self)).id == fview(old(self)).id,
            final(buf)@.len() == old(buf)@.len(),
            r is Ok <==> fview(old(self)).pos + old(buf)@.len() <= fview(old(self)).data.len(),
            r is Ok ==> final(buf)@ == fview(old(self)).data.subrange(fview(old(self)).pos, fview(old(self)).pos + old(buf)@.len())
                && fview(final(self)).pos == fview(old(self)).pos + old(buf)@.len();
}

#[verifier::external_trait_specification]
pub trait ExWrite {
    type ExternalTraitSpecificationFor: Write;
    fn write(&mut self, buf: &[u8]) -> Result<usize, IoError>;
    fn flush(&mut self) -> Result<(), IoError>;
    // write at the cursor; only the append case (cursor at end) is specified
    fn write_all(&mut self, buf: &[u8]) -> (r: Result<(), IoError>)
        ensures
            fview(final(self)).id == fview(old(self)).id,
            fview(old(self)).pos == fview(old(self)).data.len() ==> r is Ok
                && fview(final(self)).data == fview(old(self)).data + buf@
                && fview(final(self)).pos == fview(final(self)).data.len();
}

// set_len takes &File in std (interior mutation through the fd). We give it the &mut-style
// effect on the view of the *same handle value*: Verus keys fview on the value, so we model it
// through the wrapper truncate_file below, which owns a &mut File.
pub assume_specification [ File::sync_all ] (f: &File) -> (r: Result<(), IoError>) ensures r is Ok;
pub assume_specification<P: AsRef<Path>> [std::fs::create_dir_all] (p: P) -> (r: Result<(), IoError>) ensures r is Ok;
pub assume_specification<P: AsRef<Path>> [std::path::Path::join] (s: &Path, p: P) -> (r: PathBuf)
    ensures pid(&r) == pjoin(pid(s), nid(p));


pub assume_specification [ <PathBuf as std::ops::Deref>::deref ] (p: &PathBuf) -> (r: &Path)
    ensures pid(r) == pid(p);

pub const INDEX_ENTRY_SIZE: u64 = 12;
pub type FileId = u32;

pub struct Head {
    pub file: File,
    pub bytes: u64,
}

impl Head {
    pub fn new(file: File, bytes: u64) -> (r: Self) ensures r.file == file, r.bytes == bytes {
        Head { file, bytes }
    }
    pub fn write(&mut self, data: &[u8]) -> (r: Result<(), IoError>)
        requires old(self).bytes + data@.len() <= u64::MAX, fview(&old(self).file).pos == fview(&old(self).file).data.len(),
        ensures r is Ok ==> fview(&final(self).file).data == fview(&old(self).file).data + data@ && final(self).bytes == old(self).bytes + data@.len()
            && fview(&final(self).file).pos == fview(&final(self).file).data.len(),
            fview(&final(self).file).id == fview(&old(self).file).id,
    {
        self.file.write_all(data)?;
        self.bytes += data.len() as u64;
        Ok(())
    }
}

#[verifier::external_body] pub struct LruFiles { x: u64 }
#[verifier::external_body] pub struct AtomicCounter { x: u64 }
#[verifier::external_body] pub struct SnappyEncoder { x: u64 }
#[verifier::external_body] pub struct SnapError { x: u64 }
pub enum Ordering { SeqCst }
#[verifier::external_body] pub struct SnappyDecoder { x: u64 }
impl SnappyDecoder {
    #[verifier::external_body] pub fn new() -> SnappyDecoder { unimplemented!() }
    #[verifier::external_body] pub fn decompress_vec(&mut self, d: &[u8]) -> Result<Vec<u8>, SnapError> { unimplemented!() }
}
impl LruFiles {
    #[verifier::external_body] pub fn get(&mut self, k: &FileId) -> Option<&File> { unimplemented!() }
}
impl AtomicCounter {
    #[verifier::external_body] pub fn store(&self, v: u64, o: Ordering) { unimplemented!() }
    #[verifier::external_body] pub fn load(&self, o: Ordering) -> u64 { unimplemented!() }
    #[verifier::external_body] pub fn fetch_add(&self, v: u64, o: Ordering) -> u64 { unimplemented!() }
}
impl SnappyEncoder {
    #[verifier::external_body] pub fn new() -> SnappyEncoder { unimplemented!() }
    #[verifier::external_body] pub fn compress_vec(&mut self, d: &[u8]) -> Result<Vec<u8>, SnapError> { unimplemented!() }
}
#[verifier::external_body] pub fn io_other(s: String) -> IoError { unimplemented!() }

pub struct FreezerFiles {
    pub files: LruFiles,
    pub head: Head,
    pub number: AtomicCounter,
    pub max_size: u64,
    pub tail_id: FileId,
    pub head_id: FileId,
    pub file_path: PathBuf,
    pub index: File,
    pub enable_compression: bool,
}
impl FreezerFiles {
    /// Append item into freezer files
    pub fn append(&mut self, number: u64, input: &[u8]) -> (r: Result<(), IoError>)
        requires
            old(self).head.bytes == fview(&old(self).head.file).data.len(),
            fview(&old(self).head.file).pos == fview(&old(self).head.file).data.len(),
            old(self).head.bytes + input@.len() <= u64::MAX,
            old(self).head_id < u32::MAX,
            !old(self).enable_compression,
            fview(&old(self).index).data.len() <= u64::MAX,
        ensures
            r is Ok ==> ({
                let rolled = old(self).head.bytes + input@.len() > old(self).max_size;
                &&& final(self).head_id == (if rolled { (old(self).head_id + 1) as u32 } else { old(self).head_id })
                &&& fview(&final(self).head.file).data == (if rolled { Seq::<u8>::empty() } else { fview(&old(self).head.file).data }) + input@
                &&& final(self).head.bytes == fview(&final(self).head.file).data.len()
                &&& fview(&final(self).index).data == fview(&old(self).index).data + enc_spec(final(self).head_id, final(self).head.bytes)
            }),
    {
        let expected = self.number.load(Ordering::SeqCst);
        if expected != number {
            return Err(io_other(format!(
                "appending unexpected block expected {expected} have {number}"
            )));
        }

        // https://github.com/rust-lang/rust/issues/49171
        #[allow(unused_mut)]
        let mut compressed_data;
        let mut data = input;
        if self.enable_compression {
            compressed_data = SnappyEncoder::new()
                .compress_vec(data)
                .map_err(|e| io_other(format!("compress error {e}")))?;
            data = &compressed_data;
        };

        let data_size = data.len();
        // open a new file
        if self.head.bytes + data_size as u64 > self.max_size {
            let head_id = self.head_id;
            let next_id = head_id + 1;
            let new_head_file = self.open_truncated(next_id)?;

            // release old head, reopen with read only
            self.release(head_id);
            self.open_read_only(head_id)?;

            self.head_id = next_id;
            self.head = Head::new(new_head_file, 0);
        }

        self.head.write(data)?;
        self.write_index(self.head_id, self.head.bytes)?;
        self.number.fetch_add(1, Ordering::SeqCst);
        Ok(())
    }

    fn write_index(&mut self, file_id: FileId, offset: u64) -> (r: Result<(), IoError>)
        requires fview(&old(self).index).data.len() <= u64::MAX,
        ensures
            final(self).head == old(self).head, final(self).head_id == old(self).head_id, final(self).max_size == old(self).max_size,
            final(self).enable_compression == old(self).enable_compression,
            r is Ok ==> fview(&final(self).index).data == fview(&old(self).index).data + enc_spec(file_id, offset),
    {
        let index = IndexEntry { file_id, offset };
        self.index.seek(SeekFrom::End(0))?;
        self.index.write_all(&index.encode())?;
        Ok(())
    }


    fn get_bounds(&self, item: u64) -> (r: Result<Option<(u64, u64, FileId)>, IoError>)
        requires 1 <= item, item * 12 + 12 <= u64::MAX,
        ensures r is Ok,
            ({
                let idx = fview(&self.index).data;
                r->Ok_0 matches Some(b) ==> {
                    &&& (item as int + 1) * 12 <= idx.len()
                    &&& b.2 == entry_fid(idx, item as int)
                    &&& b.1 == entry_off(idx, item as int)
                    &&& b.0 == (if item > 1 && entry_fid(idx, item as int - 1) == entry_fid(idx, item as int) { entry_off(idx, item as int - 1) } else { 0 })
                }
            }),
    {
        let mut buffer = [0; INDEX_ENTRY_SIZE as usize];
        let mut index = &self.index;
        proof { axiom_ref_view(&self.index); }
        if let Err(e) = index.seek(SeekFrom::Start(item * INDEX_ENTRY_SIZE)) {
            return Ok(None);
        }

        if let Err(e) = index.read_exact(&mut buffer) {
            return Ok(None);
        }
        let end_index = IndexEntry::decode(&buffer)?;
        proof {
            let idx = fview(&self.index).data;
            assert(buffer@ =~= idx.subrange(12 * item as int, 12 * item as int + 12));
        }
        if item == 1 {
            return Ok(Some((0, end_index.offset, end_index.file_id)));
        }

        if let Err(e) = index.seek(SeekFrom::Start((item - 1) * INDEX_ENTRY_SIZE)) {
            return Ok(None);
        }
        if let Err(e) = index.read_exact(&mut buffer) {
            return Ok(None);
        }
        let start_index = IndexEntry::decode(&buffer)?;
        proof {
            let idx = fview(&self.index).data;
            assert(buffer@ =~= idx.subrange(12 * (item as int - 1), 12 * (item as int - 1) + 12));
        }
        if start_index.file_id != end_index.file_id {
            return Ok(Some((0, end_index.offset, end_index.file_id)));
        }

        Ok(Some((
            start_index.offset,
            end_index.offset,
            end_index.file_id,
        )))
    }


    /// Retrieve frozen item by number
    pub fn retrieve(&mut self, item: u64) -> Result<Option<Vec<u8>>, IoError> {
        if item < 1 {
            return Ok(None);
        }
        if self.number.load(Ordering::SeqCst) <= item {
            return Ok(None);
        }

        let bounds = self.get_bounds(item)?;
        if let Some((start_offset, end_offset, file_id)) = bounds {
            let open_read_only;

            let mut file = if let Some(file) = self.files.get(&file_id) {
                file
            } else {
                open_read_only = self.open_read_only(file_id)?;
                &open_read_only
            };

            let size = (end_offset - start_offset) as usize;
            let mut data = vec![0u8; size];
            file.seek(SeekFrom::Start(start_offset))?;
            file.read_exact(&mut data)?;

            if self.enable_compression {
                data = SnappyDecoder::new().decompress_vec(&data).map_err(|e| {
                    io_other(format!(
                        "decompress file-id-{file_id} offset-{start_offset} size-{size}: error {e}"
                    ))
                })?;
            }
            Ok(Some(data))
        } else {
            Ok(None)
        }
    }

    /// keeping the provided threshold number item and dropping the rest.
    pub fn truncate(&mut self, item: u64) -> Result<(), IoError> {
        // out of bound, this has no effect.
        if item < 1 || ((item + 1) >= self.number()) {
            return Ok(());
        }

        let mut buffer = [0; INDEX_ENTRY_SIZE as usize];
        // truncate the index
        helper::truncate_file(&mut self.index, (item + 1) * INDEX_ENTRY_SIZE)?;
        self.index.seek(SeekFrom::Start(item * INDEX_ENTRY_SIZE))?;
        self.index.read_exact(&mut buffer)?;
        let new_index = IndexEntry::decode(&buffer)?;

        // truncate files
        if new_index.file_id != self.head_id {
            self.release(new_index.file_id);
            let (new_head_file, offset) = self.open_append(new_index.file_id)?;

            self.delete_after(new_index.file_id)?;

            self.head_id = new_index.file_id;
            self.head = Head::new(new_head_file, offset);
        }
        helper::truncate_file(&mut self.head.file, new_index.offset)?;
        self.head.bytes = new_index.offset;
        self.number.store(item + 1, Ordering::SeqCst);
        Ok(())
    }


    #[verifier::external_body]
    pub fn number(&self) -> u64 { unimplemented!() }
    #[verifier::external_body]
    fn open_append(&mut self, id: FileId) -> Result<(File, u64), IoError> { unimplemented!() }
    #[verifier::external_body]
    fn delete_after(&mut self, id: FileId) -> Result<(), IoError> { unimplemented!() }
    #[verifier::external_body]
    fn release(&mut self, id: FileId)
        ensures final(self).head == old(self).head, final(self).index == old(self).index, final(self).head_id == old(self).head_id,
            final(self).max_size == old(self).max_size, final(self).enable_compression == old(self).enable_compression, final(self).file_path == old(self).file_path,
    { unimplemented!() }
    #[verifier::external_body]
    fn open_read_only(&mut self, id: FileId) -> (r: Result<File, IoError>)
        ensures final(self).head == old(self).head, final(self).index == old(self).index, final(self).head_id == old(self).head_id,
            final(self).max_size == old(self).max_size, final(self).enable_compression == old(self).enable_compression, final(self).file_path == old(self).file_path,
    { unimplemented!() }
    #[verifier::external_body]
    fn open_truncated(&mut self, id: FileId) -> (r: Result<File, IoError>)
        ensures final(self).head == old(self).head, final(self).index == old(self).index, final(self).head_id == old(self).head_id,
            final(self).max_size == old(self).max_size, final(self).enable_compression == old(self).enable_compression, final(self).file_path == old(self).file_path,
            r is Ok ==> fview(&r->Ok_0).data == Seq::<u8>::empty() && fview(&r->Ok_0).pos == 0 && fview(&r->Ok_0).id == dfile(pid(&old(self).file_path), id),
    { unimplemented!() }
}


#[derive(Default)]
pub struct IndexEntry {
    pub file_id: FileId,
    pub offset: u64,
}

// ---- spec of the on-disk index format (12-byte LE records) ----
pub open spec fn le_u32(s: Seq<u8>) -> u32 { (s[0] as u32 | (s[1] as u32) << 8 | (s[2] as u32) << 16 | (s[3] as u32) << 24) as u32 }
pub uninterp spec fn dec_fid(s: Seq<u8>) -> u32;   // refined when decode itself is verified
pub uninterp spec fn dec_off(s: Seq<u8>) -> u64;
pub uninterp spec fn enc_spec(fid: u32, off: u64) -> Seq<u8>;
pub open spec fn entry_fid(idx: Seq<u8>, j: int) -> u32 { dec_fid(idx.subrange(12 * j, 12 * j + 12)) }
pub open spec fn entry_off(idx: Seq<u8>, j: int) -> u64 { dec_off(idx.subrange(12 * j, 12 * j + 12)) }
// data file identity for file id `k` under base directory `base`
pub open spec fn dfile(base: int, k: u32) -> int { pjoin(base, fname(k)) }
// entry j of index `idx` has all its data present on (pre-state) disk
pub open spec fn present(base: int, idx: Seq<u8>, j: int) -> bool {
    disk(dfile(base, entry_fid(idx, j))).len() >= entry_off(idx, j)
}

pub assume_specification [ <IndexEntry as Default>::default ] () -> (r: IndexEntry)
    ensures r.file_id == 0, r.offset == 0;
impl IndexEntry {
    #[verifier::external_body]
    pub fn encode(&self) -> (r: Vec<u8>) ensures r@ == enc_spec(self.file_id, self.offset) { unimplemented!() }
    #[verifier::external_body]
    pub fn decode(raw: &[u8]) -> (r: Result<Self, IoError>)
        ensures raw@.len() == 12 ==> r is Ok && r->Ok_0.file_id == dec_fid(raw@) && r->Ok_0.offset == dec_off(raw@)
    { unimplemented!() }
}

pub struct FreezerFilesBuilder {
    pub file_path: PathBuf,
    pub max_file_size: u64,
    pub enable_compression: bool,
    pub open_files_limit: usize,
}

pub struct Built { pub head: Head, pub index: File, pub number: u64, pub head_id: FileId, pub tail_id: FileId }

pub uninterp spec fn index_name() -> int;
#[verifier::external_body]
pub proof fn axiom_names()
    ensures nid(INDEX_FILE_NAME) == index_name(),
        forall|a: u32, b: u64| (#[trigger] enc_spec(a, b)).len() == 12,
{}
pub const INDEX_FILE_NAME: &'static str = "INDEX";

impl FreezerFilesBuilder {
    pub open spec fn base(&self) -> int { pid(&self.file_path) }
    pub open spec fn index_id(&self) -> int { pjoin(self.base(), index_name()) }

    pub fn build(self) -> (res: Result<Built, IoError>)
        requires
            // index on disk: whole records, at least the tail marker, marker has offset 0
            disk(self.index_id()).len() >= 12,
            disk(self.index_id()).len() % 12 == 0,
            disk(self.index_id()).len() <= u64::MAX - 12,
            entry_off(disk(self.index_id()), 0) == 0,
            forall|k: u32| disk(dfile(self.base(), k)).len() <= u64::MAX,
        ensures
            res is Ok,
            ({
                let b = res->Ok_0;
                let idx0 = disk(self.index_id());
                let n = b.number as int;
                &&& 1 <= n <= idx0.len() / 12
                &&& fview(&b.index).data == idx0.subrange(0, 12 * n)
                // the surviving last entry has its data, every dropped one did not
                &&& present(self.base(), idx0, n - 1)
                &&& forall|j: int| n <= j < idx0.len() / 12 ==> !present(self.base(), idx0, j)
                // head handle is the file of the last surviving entry, cut to its offset
                &&& b.head_id == entry_fid(idx0, n - 1)
                &&& fview(&b.head.file).id == dfile(self.base(), b.head_id)
                &&& fview(&b.head.file).data == disk(dfile(self.base(), b.head_id)).subrange(0, entry_off(idx0, n - 1) as int)
                &&& b.head.bytes == entry_off(idx0, n - 1)
            }),
    {
        fs::create_dir_all(&self.file_path)?;
        let (mut index, mut index_size) = self.open_index()?;

        let mut buffer = [0; INDEX_ENTRY_SIZE as usize];
        index.rewind()?;
        index.read_exact(&mut buffer)?;
        let tail_index = IndexEntry::decode(&buffer)?;
        let tail_id = tail_index.file_id;

        index.seek(SeekFrom::Start(index_size - INDEX_ENTRY_SIZE))?;
        index.read_exact(&mut buffer)?;

        let mut head_index = IndexEntry::decode(&buffer)?;

        proof {
            let idx0 = disk(self.index_id());
            let j = index_size as int / 12 - 1;
            assert(12 * j == index_size - 12) by(nonlinear_arith) requires index_size % 12 == 0, j == index_size as int / 12 - 1;
            assert(idx0.subrange(0, index_size as int).subrange(index_size - 12, index_size as int) =~= idx0.subrange(12 * j, 12 * j + 12));
        }
        let head_file_name = helper::file_name(head_index.file_id);
        let (mut head, mut head_size) = self.open_append(self.file_path.join(head_file_name))?;
        let mut expect_head_size = head_index.offset;

        // try repair cross checks the head and the index file and truncates them to
        // be in sync with each other after a potential crash/data loss.
        while expect_head_size != head_size
            invariant
                disk(self.index_id()).len() % 12 == 0,
                disk(self.index_id()).len() <= u64::MAX,
                entry_off(disk(self.index_id()), 0) == 0,
                forall|k: u32| disk(dfile(self.base(), k)).len() <= u64::MAX,
                12 <= index_size <= disk(self.index_id()).len(),
                index_size % 12 == 0,
                buffer@.len() == 12,
                fview(&index).data == disk(self.index_id()).subrange(0, index_size as int),
                head_index.file_id == entry_fid(disk(self.index_id()), index_size / 12 - 1),
                head_index.offset == entry_off(disk(self.index_id()), index_size / 12 - 1),
                expect_head_size == head_index.offset,
                fview(&head).id == dfile(self.base(), head_index.file_id),
                head_size == fview(&head).data.len(),
                // head still has its pre-state content, or has just been cut to expect (then loop ends)
                fview(&head).data == disk(dfile(self.base(), head_index.file_id))
                    || (head_size == expect_head_size && present(self.base(), disk(self.index_id()), index_size / 12 - 1)
                        && fview(&head).data == disk(dfile(self.base(), head_index.file_id)).subrange(0, expect_head_size as int)),
                forall|j: int| index_size / 12 <= j < disk(self.index_id()).len() / 12 ==> !present(self.base(), disk(self.index_id()), j),
            decreases index_size, (if expect_head_size < head_size { 1int } else { 0int }),
        {
            // truncate the head file to the last offset
            if expect_head_size < head_size {
                helper::truncate_file(&mut head, expect_head_size)?;
                head_size = expect_head_size;
            }

            // truncate the index to matching the head file
            if expect_head_size > head_size {
                helper::truncate_file(&mut index, index_size - INDEX_ENTRY_SIZE)?;
                index_size -= INDEX_ENTRY_SIZE;
                proof {
                    let idx0 = disk(self.index_id());
                    assert(idx0.subrange(0, index_size + 12).subrange(0, index_size as int) =~= idx0.subrange(0, index_size as int));
                }

                index.seek(SeekFrom::Start(index_size - INDEX_ENTRY_SIZE))?;
                index.read_exact(&mut buffer)?;
                let new_index = IndexEntry::decode(&buffer)?;

                proof {
                    let idx0 = disk(self.index_id());
                    let j = index_size as int / 12 - 1;
                    assert(12 * j == index_size - 12) by(nonlinear_arith) requires index_size % 12 == 0, j == index_size as int / 12 - 1;
                    assert(idx0.subrange(0, index_size as int).subrange(index_size - 12, index_size as int) =~= idx0.subrange(12 * j, 12 * j + 12));
                }

                // slipped back into an earlier head-file
                if new_index.file_id != head_index.file_id {
                    let head_file_name = helper::file_name(new_index.file_id);
                    let (new_head, size) = self.open_append(self.file_path.join(head_file_name))?;
                    head = new_head;
                    head_size = size;
                }
                expect_head_size = new_index.offset;
                head_index = new_index;
            }
        }

        // ensure flush to disk
        head.sync_all()?;
        index.sync_all()?;

        let number = index_size / INDEX_ENTRY_SIZE;

        Ok(Built {
            head: Head::new(head, head_size),
            tail_id,
            number: number,
            head_id: head_index.file_id,
            index,
        })
    }

    #[verifier::external_body]
    fn open_append<P: AsRef<Path>>(&self, path: P) -> (r: Result<(File, u64), IoError>)
        ensures r is Ok,
            fview(&r->Ok_0.0).id == pid(&path),
            fview(&r->Ok_0.0).data == disk(pid(&path)),
            fview(&r->Ok_0.0).pos == disk(pid(&path)).len(),
            r->Ok_0.1 == disk(pid(&path)).len(),
    {
        unimplemented!()
    }

    fn open_index(&self) -> (r: Result<(File, u64), IoError>)
        requires disk(self.index_id()).len() <= u64::MAX - 12,
            disk(self.index_id()).len() == 0 || disk(self.index_id()).len() >= 12,   // CANDIDATE-FINDING precondition
        ensures r is Ok,
            r->Ok_0.1 % 12 == 0,
            r->Ok_0.1 >= 12,
            fview(&r->Ok_0.0).data.len() == r->Ok_0.1,
            disk(self.index_id()).len() == 0 ==> fview(&r->Ok_0.0).data == enc_spec(0, 0),
            disk(self.index_id()).len() >= 12 ==> fview(&r->Ok_0.0).data == disk(self.index_id()).subrange(0, (disk(self.index_id()).len() - disk(self.index_id()).len() % 12) as int),
    {
        proof { axiom_names(); }
        let (mut index, mut size) = self.open_append(self.file_path.join(INDEX_FILE_NAME))?;
        // fill a default entry within empty index
        if size == 0 {
            index.write_all(&IndexEntry::default().encode())?;
            size += INDEX_ENTRY_SIZE;
            proof { assert(Seq::<u8>::empty() + enc_spec(0, 0) =~= enc_spec(0, 0)); }
        }

        // ensure the index is a multiple of INDEX_ENTRY_SIZE bytes
        let tail = size % INDEX_ENTRY_SIZE;
        if (tail != 0) && (size != 0) {
            size -= tail;
            helper::truncate_file(&mut index, size)?;
        }
        Ok((index, size))
    }
}

pub mod helper {
    use super::*;

    #[verifier::external_body]
    pub fn truncate_file(file: &mut File, size: u64) -> (r: Result<(), IoError>)
        requires size <= fview(old(file)).data.len()
        ensures r is Ok,
            fview(final(file)).id == fview(old(file)).id,
            fview(final(file)).data == fview(old(file)).data.subrange(0, size as int),
            fview(final(file)).pos == size,
    {
        unimplemented!()
    }

    #[verifier::external_body]
    pub fn file_name(file_id: FileId) -> (r: String)
        ensures nid(r) == fname(file_id)
    {
        unimplemented!()
    }
}

}
impl std::fmt::Display for SnapError { fn fmt(&self, f: &mut std::fmt::Formatter<'_>) -> std::fmt::Result { Ok(()) } }
fn main() {}
