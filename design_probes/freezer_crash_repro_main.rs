use ckb_freezer::FreezerFilesBuilder;
use std::fs;
fn make_bytes(size: usize, byte: u8) -> Vec<u8> { vec![byte; size] }
fn main() {
    let tempdir = tempfile::Builder::new().tempdir().unwrap();
    let p = tempdir.path().to_path_buf();
    {
        let mut f = FreezerFilesBuilder::new(p.clone()).max_file_size(50).enable_compression(false).build().unwrap();
        f.preopen().unwrap();
        // 15-byte items: 3 per file (45 <= 50). items 1..=3 in blk0, 4..=6 blk1, 7 in blk2
        for i in 1..8u8 { f.append(i.into(), &make_bytes(15, i)).unwrap(); }
        println!("number before crash {}", f.number());
    }
    for e in fs::read_dir(&p).unwrap() { let e = e.unwrap(); println!("{:?} {}", e.file_name(), e.metadata().unwrap().len()); }
    // crash state: new head file blk000002 lost its data (size 0), index entry for item 7 present
    let head = p.join("blk000002");
    fs::OpenOptions::new().write(true).open(&head).unwrap().set_len(0).unwrap();
    let mut f = FreezerFilesBuilder::new(p.clone()).max_file_size(50).enable_compression(false).build().unwrap();
    f.preopen().unwrap();
    println!("number after repair {} (fully written items: 6 => expect >= 7)", f.number());
    for i in 1..8u64 { println!("retrieve {} -> {:?}", i, f.retrieve(i).map(|o| o.map(|v| (v.len(), v.first().copied())))); }
    let n = f.number();
    let r = f.append(n, &make_bytes(15, 99));
    println!("append {:?}", r.is_ok());
    println!("retrieve new {} -> {:?}", n, f.retrieve(n).map(|o| o.map(|v| (v.len(), v.first().copied()))));
    for i in 1..n { println!("retrieve {} -> {:?}", i, f.retrieve(i).map(|o| o.map(|v| (v.len(), v.first().copied())))); }
}
