use vstd::prelude::*;
use std::collections::{VecDeque, HashSet};
use std::cmp;
verus! {
pub type BlockNumber = u64;
#[verifier::external_body] #[derive(PartialEq, Eq)] pub struct Byte32 { x: u64 }
#[verifier::external_body] pub struct BlockView { x: u64 }
#[verifier::external_body] pub struct HeaderView { x: u64 }
#[verifier::external_body] pub struct Block { x: u64 }
#[verifier::external_body] pub struct Header { x: u64 }
#[verifier::external_body] pub struct RawHeader { x: u64 }
#[verifier::external_body] pub struct ChainDB { x: u64 }
#[verifier::external_body] pub struct Shared { x: u64 }
#[verifier::external_body] pub struct ProposalShortId { x: u64 }
pub struct BlockExt { pub verified: Option<bool>, pub total_uncles_count: u64 }

// abstract read-only view of the store (ASSUMED): main-chain index and block/ext lookup
pub uninterp spec fn main_hash(db: &ChainDB, n: u64) -> Option<Byte32>;
pub uninterp spec fn block_of(db: &ChainDB, h: Byte32) -> Option<BlockView>;
pub uninterp spec fn ext_of(db: &ChainDB, h: Byte32) -> Option<BlockExt>;
pub uninterp spec fn b_number(b: &BlockView) -> u64;
pub uninterp spec fn b_hash(b: &BlockView) -> Byte32;
pub uninterp spec fn b_parent(b: &BlockView) -> Byte32;
impl ChainDB {
    #[verifier::external_body] pub fn get_block_hash(&self, n: u64) -> (r: Option<Byte32>) ensures r == main_hash(self, n) { unimplemented!() }
    #[verifier::external_body] pub fn get_block(&self, h: &Byte32) -> (r: Option<BlockView>) ensures r == block_of(self, *h) { unimplemented!() }
    #[verifier::external_body] pub fn get_block_ext(&self, h: &Byte32) -> (r: Option<BlockExt>) ensures r == ext_of(self, *h) { unimplemented!() }
}
pub uninterp spec fn store_of(s: &Shared) -> ChainDB;
impl Shared { #[verifier::external_body] pub fn store(&self) -> (r: &ChainDB) ensures *r == store_of(self) { unimplemented!() } }
impl Clone for BlockView { #[verifier::external_body] fn clone(&self) -> (r: BlockView) ensures r == *self { unimplemented!() } }
pub uninterp spec fn hdr_of(b: &BlockView) -> HeaderView;
pub uninterp spec fn h_number(h: &HeaderView) -> u64;
impl BlockView {
    #[verifier::external_body] pub fn header(&self) -> (r: HeaderView) ensures h_number(&r) == b_number(self) { unimplemented!() }
    #[verifier::external_body] pub fn data(&self) -> (r: Block) ensures blk_parent(&r) == b_parent(self) { unimplemented!() }
}
impl HeaderView { #[verifier::external_body] pub fn number(&self) -> (r: u64) ensures r == h_number(self) { unimplemented!() } }
pub uninterp spec fn blk_parent(b: &Block) -> Byte32;
pub uninterp spec fn hd_parent(b: &Header) -> Byte32;
pub uninterp spec fn raw_parent(b: &RawHeader) -> Byte32;
impl Block { #[verifier::external_body] pub fn header(&self) -> (r: Header) ensures hd_parent(&r) == blk_parent(self) { unimplemented!() } }
impl Header { #[verifier::external_body] pub fn raw(&self) -> (r: RawHeader) ensures raw_parent(&r) == hd_parent(self) { unimplemented!() } }
impl RawHeader { #[verifier::external_body] pub fn parent_hash(&self) -> (r: Byte32) ensures r == raw_parent(self) { unimplemented!() } }

pub struct GlobalIndex {
    pub number: BlockNumber,
    pub hash: Byte32,
    pub unseen: bool,
}
impl GlobalIndex {
    pub fn new(number: BlockNumber, hash: Byte32, unseen: bool) -> (r: GlobalIndex) ensures r.number == number, r.hash == hash, r.unseen == unseen {
        GlobalIndex {
            number,
            hash,
            unseen,
        }
    }
    pub fn forward(&mut self, hash: Byte32)
        requires old(self).number > 0
        ensures final(self).number == old(self).number - 1, final(self).hash == hash, final(self).unseen == old(self).unseen
    {
        self.number -= 1;
        self.hash = hash;
    }
}
pub struct ForkChanges {
    pub attached_blocks: VecDeque<BlockView>,
    pub detached_blocks: VecDeque<BlockView>,
    pub detached_proposal_id: HashSet<ProposalShortId>,
    pub dirty_exts: VecDeque<BlockExt>,
}
#[verifier::external_body] pub struct Consensus { x: u64 }
#[derive(Clone, Copy)] pub struct ProposalWindow(pub BlockNumber, pub BlockNumber);
impl ProposalWindow {
    pub const fn closest(&self) -> (r: BlockNumber) ensures r == self.0 { self.0 }
    pub const fn farthest(&self) -> (r: BlockNumber) ensures r == self.1 { self.1 }
}
pub uninterp spec fn window_of(c: &Consensus) -> ProposalWindow;
impl Consensus { #[verifier::external_body] pub fn tx_proposal_window(&self) -> (r: ProposalWindow) ensures r == window_of(self) { unimplemented!() } }
pub uninterp spec fn consensus_of(s: &Shared) -> Consensus;
impl Shared { #[verifier::external_body] pub fn consensus(&self) -> (r: &Consensus) ensures *r == consensus_of(self) { unimplemented!() } }
#[verifier::external_body] pub struct IdSet { x: u64 }
pub uninterp spec fn union_ids(b: &BlockView) -> IdSet;
impl BlockView { #[verifier::external_body] pub fn union_proposal_ids(&self) -> (r: IdSet) ensures r == union_ids(self) { unimplemented!() } }
#[verifier::external_body] pub struct ProposalTable { x: u64 }
pub uninterp spec fn tbl(t: &ProposalTable) -> Map<u64, IdSet>;
impl ProposalTable {
    #[verifier::external_body] pub fn insert(&mut self, n: u64, ids: IdSet) -> (r: bool) ensures tbl(final(self)) == tbl(old(self)).insert(n, ids) { unimplemented!() }
    #[verifier::external_body] pub fn remove(&mut self, n: u64) -> (r: Option<IdSet>) ensures tbl(final(self)) == tbl(old(self)).remove(n) { unimplemented!() }
}
impl ForkChanges {
    pub fn attached_blocks(&self) -> (r: &VecDeque<BlockView>) ensures *r == self.attached_blocks { &self.attached_blocks }
    pub fn detached_blocks(&self) -> (r: &VecDeque<BlockView>) ensures *r == self.detached_blocks { &self.detached_blocks }
    pub fn has_detached(&self) -> (r: bool) ensures r == (self.detached_blocks@.len() > 0) { !self.detached_blocks.is_empty() }
}
pub struct ConsumeUnverifiedBlockProcessor { pub shared: Shared, pub proposal_table: ProposalTable }
impl ConsumeUnverifiedBlockProcessor {
    pub fn update_proposal_table(&mut self, fork: &ForkChanges) {
        for blk in fork.detached_blocks() {
            self.proposal_table.remove(blk.header().number());
        }
        for blk in fork.attached_blocks() {
            self.proposal_table
                .insert(blk.header().number(), blk.union_proposal_ids());
        }
        self.reload_proposal_table(fork);
    }

    // if rollback happen, go back check whether need reload proposal_table from block
    pub fn reload_proposal_table(&mut self, fork: &ForkChanges) {
        if fork.has_detached() {
            let proposal_window = self.shared.consensus().tx_proposal_window();
            let detached_front = fork
                .detached_blocks()
                .front()
                .map(|blk| blk.header().number())
                .expect("detached_blocks is not empty");
            if detached_front < 2 {
                return;
            }
            let common = detached_front - 1;
            let new_tip = fork
                .attached_blocks()
                .back()
                .map(|blk| blk.header().number())
                .unwrap_or(common);

            let proposal_start =
                cmp::max(1, (new_tip + 1).saturating_sub(proposal_window.farthest()));
            for bn in proposal_start..=common {
                let blk = self
                    .shared
                    .store()
                    .get_block_hash(bn)
                    .and_then(|hash| self.shared.store().get_block(&hash))
                    .expect("block stored");

                self.proposal_table.insert(bn, blk.union_proposal_ids());
            }
        }
    }

    #[verifier::external_body]
    fn alignment_fork(
        &self,
        fork: &mut ForkChanges,
        index: &mut GlobalIndex,
        new_tip_number: BlockNumber,
        current_tip_number: BlockNumber,
    ) {
        if new_tip_number <= current_tip_number {
            for bn in new_tip_number..=current_tip_number {
                let hash = self
                    .shared
                    .store()
                    .get_block_hash(bn)
                    .expect("block hash stored before alignment_fork");
                let old_block = self
                    .shared
                    .store()
                    .get_block(&hash)
                    .expect("block data stored before alignment_fork");
                fork.detached_blocks.push_back(old_block);
            }
        } else {
            while index.number > current_tip_number {
                if index.unseen {
                    let ext = self
                        .shared
                        .store()
                        .get_block_ext(&index.hash)
                        .expect("block ext stored before alignment_fork");
                    if ext.verified.is_none() {
                        fork.dirty_exts.push_front(ext)
                    } else {
                        index.unseen = false;
                    }
                }
                let new_block = self
                    .shared
                    .store()
                    .get_block(&index.hash)
                    .expect("block data stored before alignment_fork");
                index.forward(new_block.data().header().raw().parent_hash());
                fork.attached_blocks.push_front(new_block);
            }
        }
    }

    #[verifier::external_body]
    fn find_fork_until_latest_common(&self, fork: &mut ForkChanges, index: &mut GlobalIndex) {
        loop {
            if index.number == 0 {
                break;
            }
            let detached_hash = self
                .shared
                .store()
                .get_block_hash(index.number)
                .expect("detached hash stored before find_fork_until_latest_common");
            if detached_hash == index.hash {
                break;
            }
            let detached_blocks = self
                .shared
                .store()
                .get_block(&detached_hash)
                .expect("detached block stored before find_fork_until_latest_common");
            fork.detached_blocks.push_front(detached_blocks);

            if index.unseen {
                let ext = self
                    .shared
                    .store()
                    .get_block_ext(&index.hash)
                    .expect("block ext stored before find_fork_until_latest_common");
                if ext.verified.is_none() {
                    fork.dirty_exts.push_front(ext)
                } else {
                    index.unseen = false;
                }
            }

            let attached_block = self
                .shared
                .store()
                .get_block(&index.hash)
                .expect("attached block stored before find_fork_until_latest_common");
            index.forward(attached_block.data().header().raw().parent_hash());
            fork.attached_blocks.push_front(attached_block);
        }
    }

    pub(crate) fn find_fork(
        &self,
        fork: &mut ForkChanges,
        current_tip_number: BlockNumber,
        new_tip_block: &BlockView,
        new_tip_ext: BlockExt,
    ) {
        let new_tip_number = new_tip_block.header().number();
        fork.dirty_exts.push_front(new_tip_ext);

        // attached_blocks = forks[latest_common + 1 .. new_tip]
        // detached_blocks = chain[latest_common + 1 .. old_tip]
        fork.attached_blocks.push_front(new_tip_block.clone());

        let mut index = GlobalIndex::new(
            new_tip_number - 1,
            new_tip_block.data().header().raw().parent_hash(),
            true,
        );

        // if new_tip_number <= current_tip_number
        // then detached_blocks.extend(chain[new_tip_number .. =current_tip_number])
        // if new_tip_number > current_tip_number
        // then attached_blocks.extend(forks[current_tip_number + 1 .. =new_tip_number])
        self.alignment_fork(fork, &mut index, new_tip_number, current_tip_number);

        // find latest common ancestor
        self.find_fork_until_latest_common(fork, &mut index);

    }

}
}
fn main(){}
