use vstd::prelude::*;
use std::cmp::Ordering;
verus! {
#[derive(Clone, Copy, PartialEq, Eq)]
pub struct Capacity(pub u64);
impl Capacity { #[verifier::external_body] pub fn as_u64(self) -> (r: u64) ensures r == self.0 { self.0 } }
#[derive(PartialEq, Eq)]
pub struct AncestorsScoreSortKey {
    pub fee: Capacity,
    pub weight: u64,
    pub ancestors_fee: Capacity,
    pub ancestors_weight: u64,
}
impl AncestorsScoreSortKey {
    /// compare tx fee rate with ancestors fee rate and return the min one
    pub fn min_fee_and_weight(&self) -> (r: (Capacity, u64))
        ensures
            // the pair with the smaller rate fee/weight, by cross-multiplication
            (self.fee.0 as int * self.ancestors_weight as int) < (self.ancestors_fee.0 as int * self.weight as int) ==> r == (self.fee, self.weight),
            !((self.fee.0 as int * self.ancestors_weight as int) < (self.ancestors_fee.0 as int * self.weight as int)) ==> r == (self.ancestors_fee, self.ancestors_weight),
    {
        // avoid division a_fee/a_weight > b_fee/b_weight
        let tx_weight = u128::from(self.fee.as_u64()) * u128::from(self.ancestors_weight);
        let ancestors_weight = u128::from(self.ancestors_fee.as_u64()) * u128::from(self.weight);

        if tx_weight < ancestors_weight {
            (self.fee, self.weight)
        } else {
            (self.ancestors_fee, self.ancestors_weight)
        }
    }
}

impl PartialOrd for AncestorsScoreSortKey {
    fn partial_cmp(&self, other: &Self) -> Option<Ordering> {
        Some(self.cmp(other))
    }
}

impl Ord for AncestorsScoreSortKey {
    fn cmp(&self, other: &Self) -> Ordering {
        // avoid division a_fee/a_weight > b_fee/b_weight
        let (fee, weight) = self.min_fee_and_weight();
        let (other_fee, other_weight) = other.min_fee_and_weight();
        let self_weight = u128::from(fee.as_u64()) * u128::from(other_weight);
        let other_weight = u128::from(other_fee.as_u64()) * u128::from(weight);
        if self_weight == other_weight {
            // if fee rate weight is same, then compare with ancestor weight
            self.ancestors_weight.cmp(&other.ancestors_weight)
        } else {
            self_weight.cmp(&other_weight)
        }
    }
}


}
fn main(){}
