use vstd::prelude::*;
use std::io;
use std::ops::{Index, RangeFrom};
verus! {
#[verifier::external_body] pub struct BytesMut { v: Vec<u8> }
#[verifier::external_body] pub struct Bytes { v: Vec<u8> }
#[verifier::external_body] pub struct SnapDecoder { x: u8 }
#[verifier::external_body] pub struct SnapError { x: u8 }
#[verifier::external_type_specification] #[verifier::external_body] pub struct ExIoError(io::Error);
#[verifier::external_type_specification] pub struct ExIoErrorKind(io::ErrorKind);
pub uninterp spec fn bm(b: &BytesMut) -> Seq<u8>;
pub uninterp spec fn by(b: &Bytes) -> Seq<u8>;
pub uninterp spec fn snap_len(s: Seq<u8>) -> Option<usize>;

impl BytesMut {
    #[verifier::external_body] pub fn is_empty(&self) -> (r: bool) ensures r == (bm(self).len() == 0) { unimplemented!() }
    #[verifier::external_body] pub fn freeze(self) -> (r: Bytes) ensures by(&r) == bm(&self) { unimplemented!() }
    #[verifier::external_body] pub fn split_to(&mut self, at: usize) -> (r: BytesMut)
        requires at <= bm(old(self)).len()
        ensures bm(&r) == bm(old(self)).subrange(0, at as int), bm(final(self)) == bm(old(self)).subrange(at as int, bm(old(self)).len() as int) { unimplemented!() }
}
impl Index<usize> for BytesMut {
    type Output = u8;
    #[verifier::external_body] fn index(&self, i: usize) -> (r: &u8) { unimplemented!() }
}
impl Index<RangeFrom<usize>> for BytesMut {
    type Output = [u8];
    #[verifier::external_body] fn index(&self, i: RangeFrom<usize>) -> (r: &[u8]) { unimplemented!() }
}
#[verifier::external_body]
pub fn decompress_len(input: &[u8]) -> (r: Result<usize, SnapError>) { unimplemented!() }
impl SnapDecoder {
    #[verifier::external_body] pub fn new() -> SnapDecoder { unimplemented!() }
    #[verifier::external_body] pub fn decompress(&mut self, input: &[u8], output: &mut [u8]) -> (r: Result<usize, SnapError>)
        ensures final(output)@.len() == old(output)@.len() { unimplemented!() }
}
impl From<Vec<u8>> for Bytes { #[verifier::external_body] fn from(v: Vec<u8>) -> (r: Bytes) { unimplemented!() } }
pub const COMPRESS_FLAG: u8 = 0b1000_0000;
pub const MAX_UNCOMPRESSED_LEN: usize = 1 << 23; // 8MB
pub struct Message { pub inner: BytesMut }
impl Message {
    /// Decompress message
    pub fn decompress(mut self) -> Result<Bytes, io::Error> {
        if self.inner.is_empty() {
            Err(io::ErrorKind::InvalidData.into())
        } else if self.compress_flag() {
            match decompress_len(&self.inner[1..]) {
                Ok(decompressed_bytes_len) => {
                    if decompressed_bytes_len > MAX_UNCOMPRESSED_LEN {
                        Err(io::ErrorKind::InvalidData.into())
                    } else {
                        let mut buf = vec![0; decompressed_bytes_len];
                        match SnapDecoder::new().decompress(&self.inner[1..], &mut buf) {
                            Ok(_) => Ok(buf.into()),
                            Err(e) => {
                                Err(io::ErrorKind::InvalidData.into())
                            }
                        }
                    }
                }
                Err(e) => {
                    Err(io::ErrorKind::InvalidData.into())
                }
            }
        } else {
            let _ = self.inner.split_to(1);
            Ok(self.inner.freeze())
        }
    }

    pub fn compress_flag(&self) -> bool {
        (self.inner[0] & COMPRESS_FLAG) != 0
    }
}

}
fn main(){}
