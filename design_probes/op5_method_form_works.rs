use vstd::prelude::*;
use std::ops::{Mul, Div};
verus! {
#[verifier::external_body] pub struct U256 { x: [u64; 4] }
pub uninterp spec fn uval(u: &U256) -> nat;
impl<'a> vstd::std_specs::ops::MulSpecImpl<u64> for &'a U256 {
    open spec fn obeys_mul_spec() -> bool { false }
    open spec fn mul_req(self, rhs: u64) -> bool { true }
    open spec fn mul_spec(self, rhs: u64) -> U256 { arbitrary() }
}
impl<'a> vstd::std_specs::ops::DivSpecImpl<u64> for &'a U256 {
    open spec fn obeys_div_spec() -> bool { false }
    open spec fn div_req(self, rhs: u64) -> bool { true }
    open spec fn div_spec(self, rhs: u64) -> U256 { arbitrary() }
}
impl<'a> Mul<u64> for &'a U256 {
    type Output = U256;
    #[verifier::external_body]
    fn mul(self, rhs: u64) -> (r: U256) ensures uval(&r) == uval(self) * rhs as nat { unimplemented!() }
}
impl<'a> Div<u64> for &'a U256 {
    type Output = U256;
    #[verifier::external_body]
    fn div(self, rhs: u64) -> (r: U256) ensures rhs > 0 ==> uval(&r) == uval(self) / rhs as nat { unimplemented!() }
}
fn t1(a: &U256, b: u64) -> (r: U256) ensures uval(&r) == uval(a) * b as nat { Mul::mul(a, b) }
fn t2(a: &U256, b: u64) -> (r: U256) ensures uval(&r) == uval(a) * b as nat { a.mul(b) }
fn t3(a: U256, b: u64) -> (r: U256) ensures uval(&r) == uval(&a) * b as nat { (&a).mul(b) }
}
fn main() {}
