use vstd::prelude::*;
use std::ops::{Mul, Div, Add};
verus! {
#[verifier::external_body] pub struct U256 { x: [u64; 4] }
impl Mul<u64> for &U256 {
    type Output = U256;
    #[verifier::external_body]
    fn mul(self, rhs: u64) -> U256 { unimplemented!() }
}
impl Div<&U256> for U256 {
    type Output = U256;
    #[verifier::external_body]
    fn div(self, rhs: &U256) -> U256 { unimplemented!() }
}
fn t1(a: &U256, b: u64) -> U256 { a * b }
fn t2(a: U256, b: &U256) -> U256 { a / b }
}
fn main() {}
