use vstd::prelude::*;
use std::ops::{Mul, Div, Add};
verus! {
#[verifier::external_body] pub struct U256 { x: [u64; 4] }
impl vstd::std_specs::ops::MulSpecImpl<u64> for U256 {
    open spec fn obeys_mul_spec() -> bool { false }
    open spec fn mul_req(self, rhs: u64) -> bool { true }
    open spec fn mul_spec(self, rhs: u64) -> U256 { arbitrary() }
}
impl Mul<u64> for U256 {
    type Output = U256;
    #[verifier::external_body]
    fn mul(self, rhs: u64) -> U256 { unimplemented!() }
}
fn t1(a: U256, b: u64) -> U256 { a * b }
fn t2(a: U256, b: u64) -> U256 { a.mul(b) }
}
fn main() {}
