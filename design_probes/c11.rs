use vstd::prelude::*;
use std::sync::Arc;
verus! {
pub type Cycle = u64;
#[derive(Clone, Copy, PartialEq, Eq)]
pub struct Capacity(pub u64);
impl Capacity {
    #[verifier::external_body] pub const fn shannons(val: u64) -> (r: Self) ensures r.0 == val { Capacity(val) }
    #[verifier::external_body] pub fn as_u64(self) -> (r: u64) ensures r == self.0 { self.0 }
}
#[verifier::external_body] pub struct ResolvedTransaction { x: u64 }
pub struct TxEntry {
    pub rtx: Arc<ResolvedTransaction>,
    pub cycles: Cycle,
    pub size: usize,
    pub fee: Capacity,
    pub ancestors_size: usize,
    pub ancestors_fee: Capacity,
    pub ancestors_cycles: Cycle,
    pub ancestors_count: usize,
    pub descendants_fee: Capacity,
    pub descendants_size: usize,
    pub descendants_cycles: Cycle,
    pub descendants_count: usize,
    pub timestamp: u64,
}
pub open spec fn sat_add(a: int, b: int, max: int) -> int { if a + b > max { max } else { a + b } }
pub open spec fn sat_sub(a: int, b: int) -> int { if a - b < 0 { 0 } else { a - b } }
impl TxEntry {
    /// Update ancestor state for add an entry
    pub fn add_descendant_weight(&mut self, entry: &TxEntry)
        ensures
            final(self).descendants_count == sat_add(old(self).descendants_count as int, 1, usize::MAX as int),
            final(self).descendants_size == sat_add(old(self).descendants_size as int, entry.size as int, usize::MAX as int),
            final(self).descendants_cycles == sat_add(old(self).descendants_cycles as int, entry.cycles as int, u64::MAX as int),
            final(self).descendants_fee.0 == sat_add(old(self).descendants_fee.0 as int, entry.fee.0 as int, u64::MAX as int),
            // frame
            final(self).rtx == old(self).rtx, final(self).cycles == old(self).cycles, final(self).size == old(self).size, final(self).fee == old(self).fee,
            final(self).ancestors_size == old(self).ancestors_size, final(self).ancestors_fee == old(self).ancestors_fee,
            final(self).ancestors_cycles == old(self).ancestors_cycles, final(self).ancestors_count == old(self).ancestors_count,
            final(self).timestamp == old(self).timestamp,
    {
        self.descendants_count = self.descendants_count.saturating_add(1);
        self.descendants_size = self.descendants_size.saturating_add(entry.size);
        self.descendants_cycles = self.descendants_cycles.saturating_add(entry.cycles);
        self.descendants_fee = Capacity::shannons(
            self.descendants_fee
                .as_u64()
                .saturating_add(entry.fee.as_u64()),
        );
    }

    /// Update ancestor state for remove an entry
    pub fn sub_descendant_weight(&mut self, entry: &TxEntry) {
        self.descendants_count = self.descendants_count.saturating_sub(1);
        self.descendants_size = self.descendants_size.saturating_sub(entry.size);
        self.descendants_cycles = self.descendants_cycles.saturating_sub(entry.cycles);
        self.descendants_fee = Capacity::shannons(
            self.descendants_fee
                .as_u64()
                .saturating_sub(entry.fee.as_u64()),
        );
    }

    /// Update ancestor state for add an entry
    pub fn add_ancestor_weight(&mut self, entry: &TxEntry) {
        self.ancestors_count = self.ancestors_count.saturating_add(1);
        self.ancestors_size = self.ancestors_size.saturating_add(entry.size);
        self.ancestors_cycles = self.ancestors_cycles.saturating_add(entry.cycles);
        self.ancestors_fee = Capacity::shannons(
            self.ancestors_fee
                .as_u64()
                .saturating_add(entry.fee.as_u64()),
        );
    }

    /// Update ancestor state for remove an entry
    pub fn sub_ancestor_weight(&mut self, entry: &TxEntry) {
        self.ancestors_count = self.ancestors_count.saturating_sub(1);
        self.ancestors_size = self.ancestors_size.saturating_sub(entry.size);
        self.ancestors_cycles = self.ancestors_cycles.saturating_sub(entry.cycles);
        self.ancestors_fee = Capacity::shannons(
            self.ancestors_fee
                .as_u64()
                .saturating_sub(entry.fee.as_u64()),
        );
    }

    /// Reset ancestor state by remove
    pub fn reset_statistic_state(&mut self) {
        self.ancestors_count = 1;
        self.ancestors_size = self.size;
        self.ancestors_cycles = self.cycles;
        self.ancestors_fee = self.fee;

        self.descendants_count = 1;
        self.descendants_size = self.size;
        self.descendants_cycles = self.cycles;
        self.descendants_fee = self.fee;
    }

}
pub struct TemplateSize {
    pub txs: usize,
    pub proposals: usize,
    pub uncles: usize,
    pub total: usize,
}

impl TemplateSize {
    pub fn calc_total_by_proposals(&self, new_proposals_size: usize) -> (r: usize)
        ensures (self.total as int - self.proposals as int + new_proposals_size as int >= 0 && self.total as int - self.proposals as int + new_proposals_size as int <= usize::MAX)
            ==> r as int == self.total as int - self.proposals as int + new_proposals_size as int
    {
        if new_proposals_size > self.proposals {
            self.total
                .saturating_add(new_proposals_size - self.proposals)
        } else {
            self.total
                .saturating_sub(self.proposals - new_proposals_size)
        }
    }

    pub fn calc_total_by_uncles(&self, new_uncles_size: usize) -> usize {
        if new_uncles_size > self.uncles {
            self.total.saturating_add(new_uncles_size - self.uncles)
        } else {
            self.total.saturating_sub(self.uncles - new_uncles_size)
        }
    }

    pub fn calc_total_by_txs(&self, new_txs_size: usize) -> usize {
        if new_txs_size > self.txs {
            self.total.saturating_add(new_txs_size - self.txs)
        } else {
            self.total.saturating_sub(self.txs - new_txs_size)
        }
    }
}


}
fn main(){}
