use vstd::prelude::*;
use std::ops::{Mul, Div};
use std::cmp::Ordering;
verus! {
#[verifier::external_body] pub struct U256 { x: [u64; 4] }
pub uninterp spec fn uval(u: &U256) -> nat;
impl<'a> vstd::std_specs::ops::MulSpecImpl<u64> for &'a U256 {
    open spec fn obeys_mul_spec() -> bool { false }
    open spec fn mul_req(self, rhs: u64) -> bool { true }
    open spec fn mul_spec(self, rhs: u64) -> U256 { arbitrary() }
}
impl<'a> vstd::std_specs::ops::DivSpecImpl<u64> for &'a U256 {
    open spec fn obeys_div_spec() -> bool { false }
    open spec fn div_req(self, rhs: u64) -> bool { true }
    open spec fn div_spec(self, rhs: u64) -> U256 { arbitrary() }
}
impl<'a> Mul<u64> for &'a U256 {
    type Output = U256;
    #[verifier::external_body]
    fn mul(self, rhs: u64) -> (r: U256) ensures uval(&r) == uval(self) * rhs as nat { unimplemented!() }   // ASSUMED: no 256-bit overflow
}
impl<'a> Div<u64> for &'a U256 {
    type Output = U256;
    #[verifier::external_body]
    fn div(self, rhs: u64) -> (r: U256) ensures rhs > 0 ==> uval(&r) == uval(self) / rhs as nat { unimplemented!() }
}
impl U256 { #[verifier::external_body] pub fn zero() -> (r: U256) ensures uval(&r) == 0 { unimplemented!() } }
impl PartialEq for U256 { #[verifier::external_body] fn eq(&self, o: &U256) -> (r: bool) ensures r == (uval(self) == uval(o)) { unimplemented!() } }
impl PartialOrd for U256 {
    #[verifier::external_body] fn partial_cmp(&self, o: &U256) -> (r: Option<Ordering>) { unimplemented!() }
    #[verifier::external_body] fn lt(&self, o: &U256) -> (r: bool) ensures r == (uval(self) < uval(o)) { unimplemented!() }
    #[verifier::external_body] fn gt(&self, o: &U256) -> (r: bool) ensures r == (uval(self) > uval(o)) { unimplemented!() }
}
pub const TAU: u64 = 2;
#[verifier::external_body] pub struct Consensus { x: u64 }
impl Consensus {
    fn bounding_hash_rate(
        &self,
        last_epoch_hash_rate: U256,
        last_epoch_previous_hash_rate: U256,
    ) -> (r: U256)
        ensures
            uval(&last_epoch_previous_hash_rate) == 0 ==> r == last_epoch_hash_rate,
            uval(&last_epoch_previous_hash_rate) > 0 ==> uval(&last_epoch_previous_hash_rate) / 2 <= uval(&r) <= uval(&last_epoch_previous_hash_rate) * 2,
            uval(&last_epoch_previous_hash_rate) > 0 && uval(&last_epoch_previous_hash_rate) / 2 <= uval(&last_epoch_hash_rate) <= uval(&last_epoch_previous_hash_rate) * 2 ==> r == last_epoch_hash_rate,
    {
        if last_epoch_previous_hash_rate == U256::zero() {
            return last_epoch_hash_rate;
        }

        let lower_bound = core::ops::Div::div(&last_epoch_previous_hash_rate, TAU);
        if last_epoch_hash_rate < lower_bound {
            return lower_bound;
        }

        let upper_bound = core::ops::Mul::mul(&last_epoch_previous_hash_rate, TAU);
        if last_epoch_hash_rate > upper_bound {
            return upper_bound;
        }
        last_epoch_hash_rate
    }

}
}
fn main(){}
