use vstd::prelude::*;
use std::ops::Add;
verus! {
pub type BlockNumber = u64;
#[derive(Clone, Copy, PartialEq, Eq)]
pub struct EpochNumberWithFraction(pub u64);
pub open spec fn e_num(e: EpochNumberWithFraction) -> u64 { e.0 & 0xffffff }
pub open spec fn e_idx(e: EpochNumberWithFraction) -> u64 { (e.0 >> 24) & 0xffff }
pub open spec fn e_len(e: EpochNumberWithFraction) -> u64 { (e.0 >> 40) & 0xffff }
pub open spec fn e_is_genesis(e: EpochNumberWithFraction) -> bool { e_num(e) == 0 && e_idx(e) == 0 && e_len(e) == 0 }
pub open spec fn e_succ(s: EpochNumberWithFraction, p: EpochNumberWithFraction) -> bool {
    if e_idx(p) + 1 == e_len(p) { e_num(s) == e_num(p) + 1 && e_idx(s) == 0 }
    else { e_num(s) == e_num(p) && e_idx(s) == e_idx(p) + 1 && e_len(s) == e_len(p) }
}
impl EpochNumberWithFraction {
    #[verifier::external_body] pub fn is_genesis(&self) -> (r: bool) ensures r == e_is_genesis(*self) { unimplemented!() }
    #[verifier::external_body] pub fn is_successor_of(self, predecessor: Self) -> (r: bool) ensures r == e_succ(self, predecessor) { unimplemented!() }
}
#[verifier::external_body] pub struct U256 { x: [u64; 4] }
pub uninterp spec fn uval(u: U256) -> nat;
impl vstd::std_specs::ops::AddSpecImpl<U256> for U256 {
    open spec fn obeys_add_spec() -> bool { false }
    open spec fn add_req(self, rhs: U256) -> bool { true }
    open spec fn add_spec(self, rhs: U256) -> U256 { arbitrary() }
}
impl Add<U256> for U256 {
    type Output = U256;
    #[verifier::external_body]
    fn add(self, rhs: U256) -> (r: U256) ensures uval(r) == uval(self) + uval(rhs) { unimplemented!() }
}
#[verifier::external_body] pub struct Blake2b { x: u64 }
impl Blake2b {
    #[verifier::external_body] pub fn update(&mut self, d: &[u8]) { unimplemented!() }
    #[verifier::external_body] pub fn finalize(self, out: &mut [u8]) ensures final(out)@.len() == old(out)@.len() { unimplemented!() }
}
#[verifier::external_body] pub fn new_blake2b() -> Blake2b { unimplemented!() }
pub enum MMRError { MergeError(String) }
pub type MMRResult<T> = Result<T, MMRError>;

// abstract record behind the opaque molecule entity
pub struct HD { pub total_difficulty: nat, pub start_number: u64, pub end_number: u64, pub start_epoch: EpochNumberWithFraction, pub end_epoch: EpochNumberWithFraction,
    pub start_timestamp: u64, pub end_timestamp: u64, pub start_compact_target: u32, pub end_compact_target: u32, pub children_hash: Seq<u8> }
pub mod packed {
    use super::*;
    #[verifier::external_body] pub struct HeaderDigest { x: u64 }
    #[verifier::external_body] pub struct HeaderDigestBuilder { x: u64 }
    #[verifier::external_body] pub struct Uint64 { x: u64 }
    #[verifier::external_body] pub struct Uint32 { x: u64 }
    #[verifier::external_body] pub struct Uint256 { x: u64 }
    #[verifier::external_body] pub struct Byte32 { x: u64 }
    #[verifier::external_body] pub struct Bytes { x: u64 }
}
pub uninterp spec fn hd(d: &packed::HeaderDigest) -> HD;
pub uninterp spec fn hb(d: packed::HeaderDigestBuilder) -> HD;
pub uninterp spec fn u64v(x: packed::Uint64) -> u64;
pub uninterp spec fn u32v(x: packed::Uint32) -> u32;
pub uninterp spec fn u256v(x: packed::Uint256) -> nat;
impl From<packed::Uint64> for u64 { #[verifier::external_body] fn from(x: packed::Uint64) -> (r: u64) ensures r == u64v(x) { unimplemented!() } }
impl From<packed::Uint64> for EpochNumberWithFraction { #[verifier::external_body] fn from(x: packed::Uint64) -> (r: Self) ensures r.0 == u64v(x) { unimplemented!() } }
impl From<packed::Uint256> for U256 { #[verifier::external_body] fn from(x: packed::Uint256) -> (r: U256) ensures uval(r) == u256v(x) { unimplemented!() } }
impl packed::Bytes { #[verifier::external_body] pub fn raw_data(&self) -> Vec<u8> { unimplemented!() } }
impl packed::HeaderDigest {
    #[verifier::external_body] pub fn calc_mmr_hash(&self) -> packed::Bytes { unimplemented!() }
    #[verifier::external_body] pub fn total_difficulty(&self) -> (r: packed::Uint256) ensures u256v(r) == hd(self).total_difficulty { unimplemented!() }
    #[verifier::external_body] pub fn start_number(&self) -> (r: packed::Uint64) ensures u64v(r) == hd(self).start_number { unimplemented!() }
    #[verifier::external_body] pub fn end_number(&self) -> (r: packed::Uint64) ensures u64v(r) == hd(self).end_number { unimplemented!() }
    #[verifier::external_body] pub fn start_epoch(&self) -> (r: packed::Uint64) ensures u64v(r) == hd(self).start_epoch.0 { unimplemented!() }
    #[verifier::external_body] pub fn end_epoch(&self) -> (r: packed::Uint64) ensures u64v(r) == hd(self).end_epoch.0 { unimplemented!() }
    #[verifier::external_body] pub fn start_timestamp(&self) -> (r: packed::Uint64) ensures u64v(r) == hd(self).start_timestamp { unimplemented!() }
    #[verifier::external_body] pub fn end_timestamp(&self) -> (r: packed::Uint64) ensures u64v(r) == hd(self).end_timestamp { unimplemented!() }
    #[verifier::external_body] pub fn start_compact_target(&self) -> (r: packed::Uint32) ensures u32v(r) == hd(self).start_compact_target { unimplemented!() }
    #[verifier::external_body] pub fn end_compact_target(&self) -> (r: packed::Uint32) ensures u32v(r) == hd(self).end_compact_target { unimplemented!() }
    #[verifier::external_body] pub fn new_builder() -> packed::HeaderDigestBuilder { unimplemented!() }
}
impl packed::HeaderDigestBuilder {
    #[verifier::external_body] pub fn children_hash(self, h: [u8; 32]) -> (r: Self) ensures hb(r) == (HD { children_hash: h@, ..hb(self) }) { unimplemented!() }
    #[verifier::external_body] pub fn total_difficulty(self, v: U256) -> (r: Self) ensures hb(r) == (HD { total_difficulty: uval(v), ..hb(self) }) { unimplemented!() }
    #[verifier::external_body] pub fn start_number(self, v: packed::Uint64) -> (r: Self) ensures hb(r) == (HD { start_number: u64v(v), ..hb(self) }) { unimplemented!() }
    #[verifier::external_body] pub fn end_number(self, v: packed::Uint64) -> (r: Self) ensures hb(r) == (HD { end_number: u64v(v), ..hb(self) }) { unimplemented!() }
    #[verifier::external_body] pub fn start_epoch(self, v: packed::Uint64) -> (r: Self) ensures hb(r) == (HD { start_epoch: EpochNumberWithFraction(u64v(v)), ..hb(self) }) { unimplemented!() }
    #[verifier::external_body] pub fn end_epoch(self, v: packed::Uint64) -> (r: Self) ensures hb(r) == (HD { end_epoch: EpochNumberWithFraction(u64v(v)), ..hb(self) }) { unimplemented!() }
    #[verifier::external_body] pub fn start_timestamp(self, v: packed::Uint64) -> (r: Self) ensures hb(r) == (HD { start_timestamp: u64v(v), ..hb(self) }) { unimplemented!() }
    #[verifier::external_body] pub fn end_timestamp(self, v: packed::Uint64) -> (r: Self) ensures hb(r) == (HD { end_timestamp: u64v(v), ..hb(self) }) { unimplemented!() }
    #[verifier::external_body] pub fn start_compact_target(self, v: packed::Uint32) -> (r: Self) ensures hb(r) == (HD { start_compact_target: u32v(v), ..hb(self) }) { unimplemented!() }
    #[verifier::external_body] pub fn end_compact_target(self, v: packed::Uint32) -> (r: Self) ensures hb(r) == (HD { end_compact_target: u32v(v), ..hb(self) }) { unimplemented!() }
    #[verifier::external_body] pub fn build(self) -> (r: packed::HeaderDigest) ensures hd(&r) == hb(self) { unimplemented!() }
}
#[verifier::external_body] pub fn verif_opaque_string() -> String { unimplemented!() }
pub trait Merge {
    type Item;
    spec fn merge_pre(lhs: &Self::Item, rhs: &Self::Item) -> bool;
    fn merge(lhs: &Self::Item, rhs: &Self::Item) -> MMRResult<Self::Item>
        requires Self::merge_pre(lhs, rhs);
    fn merge_peaks(lhs: &Self::Item, rhs: &Self::Item) -> MMRResult<Self::Item>;
}
pub struct MergeHeaderDigest;
impl Merge for MergeHeaderDigest {
    type Item = packed::HeaderDigest;
    open spec fn merge_pre(lhs: &Self::Item, rhs: &Self::Item) -> bool { hd(lhs).end_number < u64::MAX }

    fn merge(lhs: &Self::Item, rhs: &Self::Item) -> (r: MMRResult<Self::Item>)
        ensures
            r is Ok <==> (hd(lhs).end_number + 1 == hd(rhs).start_number
                && (e_succ(hd(rhs).start_epoch, hd(lhs).end_epoch) || e_is_genesis(hd(lhs).end_epoch))),
            r is Ok ==> ({
                let d = hd(&r->Ok_0);
                &&& d.start_number == hd(lhs).start_number && d.end_number == hd(rhs).end_number
                &&& d.start_epoch == hd(lhs).start_epoch && d.end_epoch == hd(rhs).end_epoch
                &&& d.start_timestamp == hd(lhs).start_timestamp && d.end_timestamp == hd(rhs).end_timestamp
                &&& d.start_compact_target == hd(lhs).start_compact_target && d.end_compact_target == hd(rhs).end_compact_target
                &&& d.total_difficulty == hd(lhs).total_difficulty + hd(rhs).total_difficulty
            }),
    {
        let children_hash = {
            let mut hasher = new_blake2b();
            let mut hash = [0u8; 32];
            hasher.update(&lhs.calc_mmr_hash().raw_data());
            hasher.update(&rhs.calc_mmr_hash().raw_data());
            hasher.finalize(&mut hash);
            hash
        };

        let total_difficulty = {
            let l: U256 = lhs.total_difficulty().into();
            let r: U256 = rhs.total_difficulty().into();
            l + r
        };

        // 1. Check block numbers.
        let lhs_end_number: BlockNumber = lhs.end_number().into();
        let rhs_start_number: BlockNumber = rhs.start_number().into();
        if lhs_end_number + 1 != rhs_start_number {
            let errmsg = verif_opaque_string();
            return Err(MMRError::MergeError(errmsg));
        }

        // 2. Check epochs.
        let lhs_end_epoch: EpochNumberWithFraction = lhs.end_epoch().into();
        let rhs_start_epoch: EpochNumberWithFraction = rhs.start_epoch().into();
        if !rhs_start_epoch.is_successor_of(lhs_end_epoch) && !lhs_end_epoch.is_genesis() {
            let errmsg = verif_opaque_string();
            return Err(MMRError::MergeError(errmsg));
        }

        Ok(Self::Item::new_builder()
            .children_hash(children_hash)
            .total_difficulty(total_difficulty)
            .start_number(lhs.start_number())
            .start_epoch(lhs.start_epoch())
            .start_timestamp(lhs.start_timestamp())
            .start_compact_target(lhs.start_compact_target())
            .end_number(rhs.end_number())
            .end_epoch(rhs.end_epoch())
            .end_timestamp(rhs.end_timestamp())
            .end_compact_target(rhs.end_compact_target())
            .build())
    }

    fn merge_peaks(lhs: &Self::Item, rhs: &Self::Item) -> MMRResult<Self::Item> {
        Self::merge(rhs, lhs)
    }
}


}
impl std::fmt::Display for EpochNumberWithFraction { fn fmt(&self, f: &mut std::fmt::Formatter<'_>) -> std::fmt::Result { Ok(()) } }
fn main() {}
