use vstd::prelude::*;
verus! {

pub type BlockNumber = u64;
#[verifier::external_body] pub struct Byte32 { x: [u8; 32] }
#[verifier::external_body] pub struct HeaderView { x: u64 }
#[verifier::external_body] pub struct Error { x: u64 }
#[derive(Clone, Copy, PartialEq, Eq)]
pub struct EpochNumberWithFraction(pub u64);
pub const ALLOWED_FUTURE_BLOCKTIME: u64 = 15 * 1000;

// ---- ASSUMED accessors of the opaque header (ckb-types) ----
pub uninterp spec fn h_number(h: &HeaderView) -> u64;
pub uninterp spec fn h_epoch(h: &HeaderView) -> EpochNumberWithFraction;
pub uninterp spec fn h_timestamp(h: &HeaderView) -> u64;
pub uninterp spec fn h_is_genesis(h: &HeaderView) -> bool;
impl HeaderView {
    #[verifier::external_body] pub fn number(&self) -> (r: u64) ensures r == h_number(self) { unimplemented!() }
    #[verifier::external_body] pub fn epoch(&self) -> (r: EpochNumberWithFraction) ensures r == h_epoch(self) { unimplemented!() }
    #[verifier::external_body] pub fn timestamp(&self) -> (r: u64) ensures r == h_timestamp(self) { unimplemented!() }
    #[verifier::external_body] pub fn is_genesis(&self) -> (r: bool) ensures r == h_is_genesis(self) { unimplemented!() }
    #[verifier::external_body] pub fn parent_hash(&self) -> (r: Byte32) ensures r == h_parent_hash(self) { unimplemented!() }
}

// ---- error types: real definitions are thiserror enums; conversion into ckb_error::Error ASSUMED total ----
pub struct NumberError { pub expected: u64, pub actual: u64 }
pub enum EpochError {
    Malformed { value: EpochNumberWithFraction },
    NonContinuous { current: EpochNumberWithFraction, parent: EpochNumberWithFraction },
}
pub enum TimestampError {
    BlockTimeTooOld { min: u64, actual: u64 },
    BlockTimeTooNew { max: u64, actual: u64 },
}
impl From<NumberError> for Error { #[verifier::external_body] fn from(e: NumberError) -> Self { unimplemented!() } }
impl From<EpochError> for Error { #[verifier::external_body] fn from(e: EpochError) -> Self { unimplemented!() } }
impl From<TimestampError> for Error { #[verifier::external_body] fn from(e: TimestampError) -> Self { unimplemented!() } }

// ---- contracts of EpochNumberWithFraction (proved separately by Kani over the full u64 domain) ----
pub open spec fn e_num(e: EpochNumberWithFraction) -> u64 { e.0 & 0xffffff }
pub open spec fn e_idx(e: EpochNumberWithFraction) -> u64 { (e.0 >> 24) & 0xffff }
pub open spec fn e_len(e: EpochNumberWithFraction) -> u64 { (e.0 >> 40) & 0xffff }
pub open spec fn e_wf(e: EpochNumberWithFraction) -> bool { e_len(e) > 0 && e_idx(e) < e_len(e) }
pub open spec fn e_succ(s: EpochNumberWithFraction, p: EpochNumberWithFraction) -> bool {
    if e_idx(p) + 1 == e_len(p) { e_num(s) == e_num(p) + 1 && e_idx(s) == 0 }
    else { e_num(s) == e_num(p) && e_idx(s) == e_idx(p) + 1 && e_len(s) == e_len(p) }
}
impl EpochNumberWithFraction {
    #[verifier::external_body] pub fn is_well_formed(self) -> (r: bool) ensures r == e_wf(self) { unimplemented!() }
    #[verifier::external_body] pub fn is_genesis(&self) -> (r: bool) ensures r == (e_num(*self) == 0 && e_idx(*self) == 0 && e_len(*self) == 0) { unimplemented!() }
    #[verifier::external_body] pub fn is_successor_of(self, predecessor: Self) -> (r: bool) ensures r == e_succ(self, predecessor) { unimplemented!() }
}

pub trait HeaderFieldsProvider {
    spec fn median_time(&self, block_hash: &Byte32, n: usize) -> u64;
    fn block_median_time(&self, block_hash: &Byte32, median_block_count: usize) -> (r: u64)
        ensures r == self.median_time(block_hash, median_block_count);
}

// ================= extracted verbatim from verification/src/header_verifier.rs =================
pub struct TimestampVerifier<'a, DL> {
    pub header: &'a HeaderView,
    pub data_loader: &'a DL,
    pub median_block_count: usize,
    pub now: u64,
}

impl<'a, DL: HeaderFieldsProvider> TimestampVerifier<'a, DL> {
    pub fn verify(&self) -> (r: Result<(), Error>)
        requires self.now + ALLOWED_FUTURE_BLOCKTIME <= u64::MAX
        ensures ({
            let min = self.data_loader.median_time(&h_parent_hash(self.header), self.median_block_count);
            r is Ok <==> (h_is_genesis(self.header) || (min < h_timestamp(self.header) <= self.now + ALLOWED_FUTURE_BLOCKTIME))
        })
    {
        // skip genesis block
        if self.header.is_genesis() {
            return Ok(());
        }

        let min = self.data_loader.block_median_time(
            &self.header.parent_hash(),
            self.median_block_count,
        );
        if self.header.timestamp() <= min {
            return Err(TimestampError::BlockTimeTooOld {
                min,
                actual: self.header.timestamp(),
            }
            .into());
        }
        let max = self.now + ALLOWED_FUTURE_BLOCKTIME;
        if self.header.timestamp() > max {
            return Err(TimestampError::BlockTimeTooNew {
                max,
                actual: self.header.timestamp(),
            }
            .into());
        }
        Ok(())
    }
}
pub uninterp spec fn h_parent_hash(h: &HeaderView) -> Byte32;

pub struct NumberVerifier<'a> {
    pub parent: BlockNumber,
    pub header: &'a HeaderView,
}

impl<'a> NumberVerifier<'a> {
    pub fn verify(&self) -> (r: Result<(), Error>)
        requires self.parent < u64::MAX
        ensures r is Ok <==> h_number(self.header) == self.parent + 1
    {
        if self.header.number() != self.parent + 1 {
            return Err(NumberError {
                expected: self.parent + 1,
                actual: self.header.number(),
            }
            .into());
        }
        Ok(())
    }
}

pub struct EpochVerifier<'a> {
    pub parent: EpochNumberWithFraction,
    pub header: &'a HeaderView,
}

impl<'a> EpochVerifier<'a> {
    pub fn verify(&self) -> (r: Result<(), Error>)
        ensures r is Ok <==> (e_wf(h_epoch(self.header)) &&
            ((e_num(self.parent) == 0 && e_idx(self.parent) == 0 && e_len(self.parent) == 0) || e_succ(h_epoch(self.header), self.parent)))
    {
        if !self.header.epoch().is_well_formed() {
            return Err(EpochError::Malformed {
                value: self.header.epoch(),
            }
            .into());
        }
        if !self.parent.is_genesis() && !self.header.epoch().is_successor_of(self.parent) {
            return Err(EpochError::NonContinuous {
                current: self.header.epoch(),
                parent: self.parent,
            }
            .into());
        }
        Ok(())
    }
}

}
fn main() {}
