use vstd::prelude::*;
verus! {

#[derive(Debug, Clone, Copy, Default, Hash, PartialEq, Eq, PartialOrd, Ord)]
pub struct Capacity(pub u64);

#[derive(Clone, PartialEq, Debug, Eq, Copy)]
pub struct Ratio {
    pub numer: u64,
    pub denom: u64,
}
impl Ratio {
    pub fn numer(&self) -> (r: u64) ensures r == self.numer { self.numer }
    pub fn denom(&self) -> (r: u64) ensures r == self.denom { self.denom }
}

pub trait IntoCapacity {
    spec fn cap(self) -> u64;
    fn into_capacity(self) -> (r: Capacity) ensures r.0 == self.cap();
}
impl IntoCapacity for Capacity {
    open spec fn cap(self) -> u64 { self.0 }
    fn into_capacity(self) -> Capacity {
        self
    }
}

#[derive(Debug, Clone, PartialEq, Eq)]
pub enum Error {
    Overflow,
}
pub type Result<T> = ::std::result::Result<T, Error>;

impl Capacity {
    pub const fn shannons(val: u64) -> (r: Self) ensures r.0 == val {
        Capacity(val)
    }
    pub const fn one() -> (r: Self) ensures r.0 == 1 {
        Capacity(1)
    }
    pub fn as_u64(self) -> (r: u64) ensures r == self.0 {
        self.0
    }
    pub fn safe_add<C: IntoCapacity>(self, rhs: C) -> (r: Result<Self>)
        ensures self.0 + rhs.cap() <= u64::MAX ==> r is Ok && r->Ok_0.0 == self.0 + rhs.cap(),
                self.0 + rhs.cap() > u64::MAX ==> r is Err
    {
        self.0
            .checked_add(rhs.into_capacity().0)
            .map(Capacity::shannons)
            .ok_or(Error::Overflow)
    }
    pub fn safe_mul_ratio(self, ratio: Ratio) -> (r: Result<Self>)
        ensures r is Ok ==> ratio.denom != 0 && r->Ok_0.0 as int == (self.0 as int * ratio.numer as int) / (ratio.denom as int)
    {
        self.0
            .checked_mul(ratio.numer())
            .and_then(|ret| ret.checked_div(ratio.denom()))
            .map(Capacity::shannons)
            .ok_or(Error::Overflow)
    }
}

}
fn main() {}
