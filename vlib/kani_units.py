"""Kani overlay units: contracts / harness modules are injected into a scratch copy of the CURRENT /repo workspace
(nothing is committed to /repo), then `cargo kani -p <crate>` runs the named harnesses.

Unit TOML (engine = "kani-overlay"):
  crate   = "ckb-freezer"                      # package passed to -p
  modfile = "freezer/src/__verif_c09.rs"        # harness module file created in the scratch copy
  moddecl = { file = "freezer/src/lib.rs", text = "mod __verif_c09;" }   # appended, guarded by cfg(any(kani, verif_replay))
  module_text = '''...'''                       # harness bodies, written against `vsrc::any()` / `vsrc::assume()`
  [[contract]] file=..., path="impl X::fn f", attrs = '''#[cfg_attr(kani, kani::requires(..))]'''   # injected above the real fn
  [[harness]] name=..., obligations=[...], bounded=false, bound="", unwind=.., timeout=.., flags=[...]

Obligation names are the messages of the harness' assert!s (and contract clauses get the harness name); Kani's per-check
report is parsed for them.  `reach:<harness>` covers are the vacuity guard.
"""
import hashlib
import json
import os
import re
import shutil
import subprocess
import time

import extract
from extract import ExtractError

HERE = os.path.dirname(os.path.abspath(__file__))
ROOT = os.path.dirname(HERE)

VSRC = r'''
// ---- value source: symbolic under Kani, recorded bytes under native replay (cfg verif_replay) ----
#[allow(dead_code, unused_imports)]
pub(crate) mod vsrc {
    #[cfg(kani)]
    pub fn any<T: kani::Arbitrary>() -> T { kani::any() }
    #[cfg(kani)]
    pub fn assume(c: bool) { kani::assume(c) }
    #[cfg(kani)]
    pub fn reach(_name: &'static str) {}
    // named obligation whose name is built with concat!() (assert! wants a literal)
    #[cfg(kani)]
    pub fn check(c: bool, name: &'static str) { kani::assert(c, name) }
    #[cfg(not(kani))]
    pub fn check(c: bool, name: &'static str) { assert!(c, "{}", name) }

    #[cfg(not(kani))]
    pub trait FromRec: Sized { fn from_rec(next: &mut dyn FnMut() -> Vec<u8>) -> Self; }
    #[cfg(not(kani))]
    macro_rules! prim { ($($t:ty),*) => { $( impl FromRec for $t { fn from_rec(next: &mut dyn FnMut() -> Vec<u8>) -> Self {
        let b = next(); let mut a = [0u8; core::mem::size_of::<$t>()]; let n = a.len().min(b.len()); a[..n].copy_from_slice(&b[..n]); <$t>::from_le_bytes(a) } } )* } }
    #[cfg(not(kani))]
    prim!(u8, u16, u32, u64, u128, usize, i8, i16, i32, i64, i128, isize);
    #[cfg(not(kani))]
    impl FromRec for bool { fn from_rec(next: &mut dyn FnMut() -> Vec<u8>) -> Self { next().first().copied().unwrap_or(0) != 0 } }
    #[cfg(not(kani))]
    impl<T: FromRec, const N: usize> FromRec for [T; N] { fn from_rec(next: &mut dyn FnMut() -> Vec<u8>) -> Self { core::array::from_fn(|_| T::from_rec(next)) } }
    #[cfg(not(kani))]
    thread_local! { static POS: core::cell::Cell<usize> = core::cell::Cell::new(0); }
    #[cfg(not(kani))]
    fn recorded() -> Vec<Vec<u8>> {
        let s = std::env::var("VERIF_REPLAY_BYTES").unwrap_or_default();
        s.split(';').filter(|x| !x.is_empty()).map(|item| item.split(',').filter(|x| !x.is_empty()).map(|b| b.trim().parse::<u8>().unwrap()).collect()).collect()
    }
    #[cfg(not(kani))]
    pub fn any<T: FromRec>() -> T {
        let rec = recorded();
        let mut next = || { let p = POS.with(|c| { let v = c.get(); c.set(v + 1); v }); rec.get(p).cloned().unwrap_or_default() };
        T::from_rec(&mut next)
    }
    #[cfg(not(kani))]
    pub fn assume(c: bool) { if !c { panic!("VERIF-REPLAY: recorded input violates a harness assumption") } }
    #[cfg(not(kani))]
    pub fn reach(_name: &'static str) {}
}
'''


def log(*a):
    import sys
    print(*a, file=sys.stderr, flush=True)


def prepare_ws(workdir, repo):
    ws = os.path.join(workdir, 'kani_ws')
    if not os.path.exists(ws):
        os.makedirs(ws)
        subprocess.run(['rsync', '-a', '--exclude', 'target', '--exclude', '.git', repo.rstrip('/') + '/', ws + '/'], check=True)
    return ws


def inject(u, ws):
    """apply the unit's injections to the scratch workspace; returns meta (functions under contract etc.)"""
    meta = {'functions': [], 'injected': []}
    marker = '// @verif-injected %s' % u['unit']
    # harness module
    mf = os.path.join(ws, u['modfile'])
    os.makedirs(os.path.dirname(mf), exist_ok=True)
    with open(mf, 'w') as f:
        f.write('// GENERATED harness module for unit %s (not part of /repo)\n' % u['unit'])
        f.write('#![allow(unused_imports, dead_code, unused_variables, unused_mut)]\n')
        f.write(VSRC)
        f.write(u['module_text'])
    md = u['moddecl']
    decl_file = os.path.join(ws, md['file'])
    with open(decl_file) as f:
        t = f.read()
    if marker not in t:
        t += '\n%s\n#[cfg(any(kani, verif_replay))]\n%s\n' % (marker, md['text'])
        with open(decl_file, 'w') as f:
            f.write(t)
    # crate-level feature gates needed by loop contracts etc.
    for gate in u.get('crate_attrs', []):
        with open(decl_file) as f:
            t = f.read()
        if gate not in t:
            with open(decl_file, 'w') as f:
                f.write(gate + '\n' + t)
    # contract attributes above real functions
    for c in u.get('contract', []):
        p = os.path.join(ws, c['file'])
        s = extract.load(p)
        item = extract.locate(s, c['path'])
        text = s.text
        cm = '// @verif-contract %s %s' % (u['unit'], c['path'])
        if cm not in text:
            # insert before the item's first token, keeping indentation
            line_start = text.rfind('\n', 0, item.start) + 1
            indent = text[line_start:item.start]
            ins = ''.join('%s%s\n' % (indent if i else '', l) for i, l in enumerate([cm] + [x for x in c['attrs'].strip().split('\n')]))
            text = text[:item.start] + ins + indent + text[item.start:]
            with open(p, 'w') as f:
                f.write(text)
        meta['functions'].append({'function': c['path'], 'file': c['file'],
                                  'sha256': hashlib.sha256(item.text().encode()).hexdigest()})
    for fn in u.get('functions', []):
        # functions exercised by harnesses without contract attributes: record text hash for the evidence
        s = extract.load(os.path.join(ws, fn['file']))
        item = extract.locate(s, fn['path'])
        meta['functions'].append({'function': fn['path'], 'file': fn['file'],
                                  'sha256': hashlib.sha256(item.text().encode()).hexdigest()})
    return meta


CHECK_RE = re.compile(r'^Check \d+: (\S+)\n\s+- Status: (\S+)\n\s+- Description: "(.*)"\n(?:\s+- Location: (.*)\n)?', re.M)


def parse_kani(out):
    """-> {harness: {'checks': [(status, desc, loc)], 'verdict': 'SUCCESSFUL'|'FAILED'|None, 'time': float}}"""
    res = {}
    parts = re.split(r'^Checking harness (\S+?)\.\.\.\s*$', out, flags=re.M)
    # parts = [pre, name1, body1, name2, body2...]
    for i in range(1, len(parts), 2):
        name = parts[i].split('::')[-1]
        body = parts[i + 1]
        checks = [(m.group(2), m.group(3).strip('"'), m.group(4) or '') for m in CHECK_RE.finditer(body)]
        v = re.search(r'^VERIFICATION:- (\w+)', body, re.M)
        t = re.search(r'^Verification Time: ([0-9.]+)s', body, re.M)
        res[name] = {'checks': checks, 'verdict': v.group(1) if v else None, 'time': float(t.group(1)) if t else None,
                     'cex': '\n'.join(re.findall(r'^(?:Failed Checks:.*|\s+File: .*)$', body, re.M))[:2000]}
    return res


def kani_cmd(u, harnesses, extra=None):
    cmd = ['cargo', 'kani', '-p', u['crate'], '-Z', 'function-contracts', '-Z', 'stubbing']
    for fl in u.get('flags', []):
        cmd.append(fl)
    for h in harnesses:
        cmd += ['--harness', h]
    if extra:
        cmd += extra
    return cmd


def run_proc(cmd, cwd, env, timeout, mem_gb):
    import resource
    import signal

    def pre():
        os.setsid()
        if mem_gb:
            lim = int(mem_gb * (1 << 30))
            resource.setrlimit(resource.RLIMIT_AS, (lim, lim))
    t0 = time.time()
    p = subprocess.Popen(cmd, cwd=cwd, env=env, stdout=subprocess.PIPE, stderr=subprocess.STDOUT, text=True, preexec_fn=pre)
    try:
        out, _ = p.communicate(timeout=timeout)
        to = False
    except subprocess.TimeoutExpired:
        try:
            os.killpg(p.pid, signal.SIGKILL)
        except ProcessLookupError:
            pass
        out, _ = p.communicate()
        to = True
    return p.returncode, out, to, time.time() - t0


def kani_env(workdir):
    env = dict(os.environ)
    env['CARGO_NET_OFFLINE'] = 'true'
    env['CARGO_TARGET_DIR'] = os.path.join(workdir, 'kani_target')
    return env


def run_kani_unit(u, workdir, tier, repo):
    t0 = time.time()
    res = {'unit': u['unit'], 'engine': u['engine'], 'status': 'undecided', 'failed': [], 'undecided': [], 'obligations': [],
           'functions': [], 'assumed': [], 'trusted': u.get('trusted', []), 'transformations': ['overlay: attributes / harness module ADDED to a scratch copy of the workspace; no line of ckb is changed or dropped'],
           'canaries': {}, 'backend': 'Kani 0.68 / CBMC 6.11 (CaDiCaL)', 'bounded': [], 'harnesses': {}}
    try:
        ws = prepare_ws(workdir, repo)
        meta = inject(u, ws)
    except (ExtractError, FileNotFoundError, KeyError) as e:
        res['undecided'].append('overlay: %s' % e)
        res['wall'] = time.time() - t0
        return res
    res['functions'] = meta['functions']
    hs = [h for h in u.get('harness', []) if tier == 'thorough' or h.get('tier', 'quick') == 'quick']
    declared = {}
    for h in hs:
        for ob in h.get('obligations', []):
            name, _, text = ob.partition(': ')
            declared[name] = {'name': name, 'kind': 'bounded' if h.get('bounded') else 'ensures', 'function': h.get('function', h['name']),
                              'text': text or name, 'harness': h['name']}
    res['obligations'] = [o for o in declared.values() if o['kind'] != 'bounded']
    # ledger
    import run as runmod
    led = runmod.load_ledger(u['unit'])
    names_now = set(declared) | {h['name'] + '.safety' for h in hs}
    res['all_names'] = sorted(names_now)
    # run: one cargo-kani invocation per group of harnesses with equal flags
    env = kani_env(workdir)
    timeout = max(h.get('timeout', 600) for h in hs) + 600 if hs else 600
    per_harness = max([h.get('timeout', 300) for h in hs] or [300])
    cmd = kani_cmd(u, [h['name'] for h in hs], ['-Z', 'unstable-options', '--harness-timeout', '%ds' % per_harness])
    timeout = per_harness * len(hs) + 900
    res['cmd'] = ' '.join(cmd) + '   (cwd = scratch copy of /repo with the overlay applied)'
    rc, out, to, wall = run_proc(cmd, ws, env, timeout, u.get('mem_gb', 24))
    parsed = parse_kani(out)
    if to:
        res['undecided'].append('cargo kani timed out after %ds' % timeout)
    if 'error: could not compile' in out or ('error[' in out and not parsed):
        res['undecided'].append('overlay does not compile: ' + ' | '.join([l for l in out.split('\n') if l.startswith('error')][:4]))
    n_ob = n_dis = 0
    for h in hs:
        pr = parsed.get(h['name'])
        hres = {'verdict': None, 'time_s': None, 'bounded': bool(h.get('bounded')), 'bound': h.get('bound')}
        res['harnesses'][h['name']] = hres
        if pr is None or pr['verdict'] is None:
            res['undecided'].append('harness %s produced no verdict (timeout / out of memory / not found)' % h['name'])
            continue
        hres['verdict'] = pr['verdict']
        hres['time_s'] = pr['time']
        hres['checks'] = len(pr['checks'])
        by_desc = {}
        for st, desc, loc in pr['checks']:
            by_desc.setdefault(desc, []).append((st, loc))
        # vacuity guard
        reach = by_desc.get('reach:' + h['name'])
        res['canaries'][h['name']] = 'reached(ok)' if reach and all(s == 'SATISFIED' for s, _ in reach) else 'UNREACHED'
        if res['canaries'][h['name']] != 'reached(ok)':
            res['undecided'].append('vacuity: end of harness %s is not reachable (cover not satisfied)' % h['name'])
        # named obligations
        for ob in h.get('obligations', []):
            name = ob.partition(': ')[0]
            sts = by_desc.get(name)
            if h.get('bounded'):
                res['bounded'].append({'harness': h['name'], 'obligation': name, 'bound': h.get('bound'),
                                       'status': 'no check' if not sts else ('SUCCESS' if all(s == 'SUCCESS' for s, _ in sts) else 'FAILURE')})
            else:
                n_ob += 1
            if not sts:
                res['undecided'].append('obligation %s: no check with that name was generated in harness %s' % (name, h['name']))
                continue
            if all(s == 'SUCCESS' for s, _ in sts):
                if not h.get('bounded'):
                    n_dis += 1
            elif any(s == 'FAILURE' for s, _ in sts):
                res['failed'].append({'name': name, 'function': h.get('function', h['name']), 'message': 'Kani: assertion FAILURE', 'harness': h['name'],
                                      'bounded': bool(h.get('bounded'))})
            else:
                res['undecided'].append('obligation %s: status %s' % (name, sorted({s for s, _ in sts})))
        # everything else that failed (overflow, unwrap on None, out-of-bounds, unwinding assertion...)
        other = [(desc, loc) for desc, lst in by_desc.items() for (s, loc) in lst
                 if s == 'FAILURE' and desc not in declared and not desc.startswith('reach:')]
        unwind = [d for d, _ in other if 'unwinding assertion' in d]
        if unwind:
            res['undecided'].append('harness %s: unwinding assertion failed (bound too small for the current code)' % h['name'])
            other = [(d, l) for d, l in other if 'unwinding assertion' not in d]
        if not h.get('bounded'):
            n_ob += 1
        if other:
            res['failed'].append({'name': h['name'] + '.safety', 'function': h.get('function', h['name']), 'harness': h['name'],
                                  'message': 'Kani: ' + '; '.join('%s @ %s' % (d, l) for d, l in other[:4]), 'bounded': bool(h.get('bounded'))})
        elif pr['verdict'] == 'SUCCESSFUL' and not h.get('bounded'):
            n_dis += 1
    res['n_obligations'], res['n_discharged'] = n_ob, n_dis
    if led is None:
        res['undecided'].append('no ledger for unit %s (run ./check ledger)' % u['unit'])
    else:
        missing = [n for n in led['obligations'] if n not in names_now and tier == 'thorough']
        if missing:
            res['undecided'].append('ledger obligations no longer generated: %s' % ', '.join(missing[:5]))
        res['failed'] = [f for f in res['failed'] if f['name'] in led['obligations']] + \
                        [dict(f, not_in_ledger=True) for f in res['failed'] if f['name'] not in led['obligations']]
    real_fail = [f for f in res['failed'] if not f.get('not_in_ledger')]
    for f in res['failed']:
        if f.get('not_in_ledger'):
            res['undecided'].append('failed obligation %s is not in the ledger' % f['name'])
    res['failed'] = real_fail
    if real_fail:
        # counterexample: concrete playback of the first failing harness
        for f in real_fail:
            try:
                f['witness'] = concrete_playback(u, f['harness'], ws, env)
            except Exception as e:  # noqa
                log('    concrete playback failed: %s' % e)
        res['status'] = 'violation'
        res['verifier_output'] = [parsed[f['harness']]['cex'] for f in real_fail if f['harness'] in parsed][:5]
    elif res['undecided']:
        res['status'] = 'undecided'
    else:
        res['status'] = 'pass'
    res['times'] = {'total_ms': int(wall * 1000), 'per_harness_s': {k: v['time_s'] for k, v in res['harnesses'].items()}}
    res['harnesses_ok'] = sum(1 for v in res['harnesses'].values() if v['verdict'] == 'SUCCESSFUL')
    res['wall'] = time.time() - t0
    return res


def concrete_playback(u, harness, ws, env):
    cmd = kani_cmd(u, [harness], ['-Z', 'concrete-playback', '--concrete-playback=print'])
    rc, out, to, wall = run_proc(cmd, ws, env, 1800, u.get('mem_gb', 24))
    m = re.search(r'```\s*\n(.*?)```', out, re.S)
    test = m.group(1) if m else None
    vals = []
    if test:
        for mm in re.finditer(r'//\s*(.+)\n\s*vec!\[([0-9,\s]*)\]', test):
            vals.append({'value': mm.group(1).strip(), 'bytes': [int(x) for x in mm.group(2).replace(' ', '').split(',') if x]})
    if not vals:
        return None
    return {'kind': 'kani-concrete', 'unit': u['unit'], 'harness': harness, 'values_in_any_order': vals,
            'replay_bytes': ';'.join(','.join(str(b) for b in v['bytes']) for v in vals),
            'meaning': 'values of the harness\' vsrc::any() calls in call order, as found by CBMC; replayed natively by compiling the same harness module with --cfg verif_replay and running it as a #[test] against the real functions'}


def replay_native(pid, doc, workdir, repo, path):
    """re-run the harness natively (cfg verif_replay) on the recorded bytes; exit 1 iff an assertion still fails"""
    import run as runmod
    u = runmod.load_units()[doc['unit']]
    ws = prepare_ws(workdir, repo)
    inject(u, ws)
    w = doc['witness']
    env = dict(os.environ)
    env['CARGO_NET_OFFLINE'] = 'true'
    env['CARGO_TARGET_DIR'] = os.path.join(workdir, 'replay_target')
    env['RUSTFLAGS'] = (env.get('RUSTFLAGS', '') + ' --cfg verif_replay --check-cfg cfg(verif_replay) --check-cfg cfg(kani)').strip()
    env['VERIF_REPLAY_BYTES'] = w['replay_bytes']
    cmd = ['cargo', 'test', '--offline', '-p', u['crate'], '--lib', w['harness'], '--', '--exact', '--nocapture', '--test-threads=1']
    # the test path is <modname>::<harness>; use a substring filter instead of --exact
    cmd = ['cargo', 'test', '--offline', '-p', u['crate'], '--lib', w['harness'], '--', '--nocapture', '--test-threads=1']
    rc, out, to, wall = run_proc(cmd, ws, env, 3600, None)
    tail = '\n'.join(out.split('\n')[-25:])
    print(tail)
    if 'VERIF-REPLAY: recorded input violates' in out:
        print('replay input does not satisfy the harness assumptions on this tree')
        return 2
    if re.search(r'test result: FAILED|panicked at', out):
        print('VIOLATION property=%s replay=%s' % (pid, path))
        return 1
    if re.search(r'test result: ok\. [1-9]', out):
        return 0
    return 2


def make_ledger(u, workdir, repo):
    r = run_kani_unit(u, workdir, 'thorough', repo)
    # a ledger is written only from a fully passing run (no ledger yet => the only 'undecided' reason allowed)
    und = [x for x in r['undecided'] if 'no ledger' not in x]
    if r['failed'] or und:
        log('ledger: kani unit %s does not pass: failed=%s undecided=%s' % (u['unit'], [f['name'] for f in r['failed']], und[:4]))
        return None
    return {'unit': u['unit'], 'tree': subprocess.run(['git', '-C', repo, 'rev-parse', 'HEAD'], capture_output=True, text=True).stdout.strip(),
            'obligations': r['all_names'], 'assumed_hashes': {}, 'harness_times_s': {k: v['time_s'] for k, v in r['harnesses'].items()}}
