"""Transformation 10: rewrite the binary arithmetic operators of one statement into the trait calls they mean
(`a * b` -> `::core::ops::Mul::mul(a, b)`), keeping evaluation order and precedence.  Built by a small precedence
parser over the statement's tokens; balanced groups are processed recursively.
"""
from rustlex import Src

TRAIT = {'+': '::core::ops::Add::add', '-': '::core::ops::Sub::sub', '*': '::core::ops::Mul::mul',
         '/': '::core::ops::Div::div', '%': '::core::ops::Rem::rem'}
PREC = {'*': 2, '/': 2, '%': 2, '+': 1, '-': 1}
KEYWORDS = {'let', 'if', 'else', 'return', 'match', 'in', 'for', 'while', 'loop', 'mut', 'ref', 'move', 'break', 'continue'}
SEPARATORS = {',', ';', '=', '=>', '<', '>', '==', '!=', '<=', '>=', '&&', '||', '..', '..=', '+=', '-=', '*=', '/=', '%=', ':', '|'}


def desugar_stmt(text, ops='+-*/%'):
    s = Src(text)
    m = s.match()
    ops = set(ops)

    def operand_end(k):
        """does token k end an operand (so that a following + - * / % is binary)?"""
        if k < 0:
            return False
        kind = s.kind(k)
        st = s.s(k)
        if kind == 'id':
            return st not in KEYWORDS
        if kind == 'lit':
            return True
        return st in (')', ']', '}', '?')

    def render(lo, hi):
        """render tokens [lo, hi) (one nesting level) with operators desugared"""
        if lo >= hi:
            return ''
        # split into segments at separators / keywords
        out = []
        seg_start = lo
        k = lo
        while k <= hi:
            at_end = k == hi
            is_sep = False
            if not at_end:
                st = s.s(k)
                kind = s.kind(k)
                if (kind == 'p' and st in SEPARATORS) or (kind == 'id' and st in KEYWORDS):
                    is_sep = True
                    # a '<' / '>' directly after '::' or an identifier followed by matching generics is left alone anyway
            if at_end or is_sep:
                out.append(segment(seg_start, k))
                if not at_end:
                    out.append(gap(k))
                    out.append(s.s(k))
                seg_start = k + 1
            if not at_end and s.kind(k) == 'p' and s.s(k) in '([{':
                k = m[k] + 1
                continue
            k += 1
        return ''.join(out)

    def gap(k):
        """original whitespace/comment text before token k (from the end of the previous token)"""
        if k == 0:
            return text[:s.t[0][1]]
        return text[s.t[k - 1][2]:s.t[k][1]]

    def plain(lo, hi):
        """tokens [lo,hi) with nested groups rendered recursively, operators NOT touched at this level"""
        out = []
        k = lo
        while k < hi:
            out.append(gap(k) if k > lo else '')
            if s.kind(k) == 'p' and s.s(k) in '([{':
                c = m[k]
                out.append(s.s(k))
                out.append(render(k + 1, c))
                out.append(gap(c))
                out.append(s.s(c))
                k = c + 1
                continue
            out.append(s.s(k))
            k += 1
        return ''.join(out)

    def segment(lo, hi):
        if lo >= hi:
            return ''
        lead = gap(lo)
        # find binary operators at this level
        parts = []      # operands as (lo,hi) and operators as str
        cur = lo
        k = lo
        while k < hi:
            if s.kind(k) == 'p' and s.s(k) in '([{':
                k = m[k] + 1
                continue
            if s.kind(k) == 'p' and s.s(k) in PREC and s.s(k) in ops and operand_end(k - 1) and k > lo:
                parts.append((cur, k))
                parts.append(s.s(k))
                cur = k + 1
            k += 1
        parts.append((cur, hi))
        if len(parts) == 1:
            return lead + plain(lo, hi)
        # precedence climbing over the flat list
        operands = [plain(a, b).strip() for (a, b) in parts[0::2]]
        operators = parts[1::2]

        def build(min_prec, pos):
            lhs = operands[pos[0]]
            while pos[0] < len(operators) and PREC[operators[pos[0]]] >= min_prec:
                op = operators[pos[0]]
                pos[0] += 1
                # left-assoc: rhs binds operators of strictly higher precedence
                rhs_pos = pos
                rhs = build_rhs(PREC[op] + 1, rhs_pos)
                lhs = '%s(%s, %s)' % (TRAIT[op], lhs, rhs)
            return lhs

        def build_rhs(min_prec, pos):
            lhs = operands[pos[0]]
            while pos[0] < len(operators) and PREC[operators[pos[0]]] >= min_prec:
                op = operators[pos[0]]
                pos[0] += 1
                rhs = build_rhs(PREC[op] + 1, pos)
                lhs = '%s(%s, %s)' % (TRAIT[op], lhs, rhs)
            return lhs
        return lead + build(1, [0])

    return render(0, len(s.t))


if __name__ == '__main__':
    import sys
    for t in ['let lower_bound = &last_epoch_previous_hash_rate / TAU',
              'let x = a * (b + c) / &d - e % f',
              'let n = orphan_rate_target * (&last_orphan_rate + U256::one()) * &epoch_duration_target_u256 * &last_epoch_length_u256',
              'let y = if z { -a * b } else { *p + q.foo(r - 1) }']:
        print(desugar_stmt(t))
