#!/usr/bin/env python3
"""Runner: assembles units from the current /repo tree, runs the verifiers, classifies the
outcome (pass / violation / undecided), runs vacuity canaries, checks the ledger, writes evidence
and replay files.  See DESIGN.md §2.3-2.7.
"""
import concurrent.futures as cf
import glob
import hashlib
import json
import os
import re
import shutil
import signal
import subprocess
import sys
import time
import tomllib

HERE = os.path.dirname(os.path.abspath(__file__))
ROOT = os.path.dirname(HERE)
sys.path.insert(0, HERE)

import assemble_verus  # noqa: E402
from extract import ExtractError  # noqa: E402
from rustlex import LexError  # noqa: E402

REPO = os.environ.get('VERIF_REPO', '/repo')
SCRATCH_BASE = os.environ.get('VERIF_SCRATCH', '/var/tmp')

REFUTE_PATTERNS = [
    'postcondition not satisfied', 'invariant not satisfied', 'loop invariant not satisfied',
    'precondition not satisfied', 'assertion failed', 'possible arithmetic underflow/overflow',
    'possible division by zero', 'decreases not satisfied', 'could not prove termination',
    'possible bit shift underflow/overflow', 'unreachable', 'recommendation not met',
    'failed this postcondition', 'possible truncation', 'index out of bounds', 'unable to prove post-condition of closure',
    'unable to prove', 'failed precondition',
]
UNDECIDED_PATTERNS = ['Resource limit (rlimit) exceeded', 'rlimit', 'verus internal error', 'not supported',
                      'does not yet support', 'timed out', 'unsupported']


def log(*a):
    print(*a, file=sys.stderr, flush=True)


def load_units():
    units = {}
    for p in sorted(glob.glob(os.path.join(ROOT, 'contracts', '*.toml'))):
        with open(p, 'rb') as f:
            u = tomllib.load(f)
        u['_path'] = p
        units[u['unit']] = u
    return units


def load_ledger(unit):
    p = os.path.join(ROOT, 'ledger', unit + '.json')
    if not os.path.exists(p):
        return None
    with open(p) as f:
        return json.load(f)


def known_findings():
    res = {'open': [], 'fixed': []}
    p = os.path.join(ROOT, 'known_findings.txt')
    if os.path.exists(p):
        for line in open(p):
            line = line.strip()
            if not line or line.startswith('#'):
                continue
            m = re.match(r'^(open|fixed):\s*property=(\S+)\s+(.*)$', line)
            if m:
                res[m.group(1)].append({'property': m.group(2), 'rest': m.group(3), 'line': line})
    return res


# ------------------------------------------------------------------------------------------------
# Verus
# ------------------------------------------------------------------------------------------------

def run_cmd(cmd, cwd=None, timeout=None, env=None, mem_gb=None):
    """run in its own process group; kill the whole group on timeout"""
    t0 = time.time()
    pre = None
    if mem_gb:
        import resource

        def pre():
            os.setsid()
            lim = int(mem_gb * (1 << 30))
            resource.setrlimit(resource.RLIMIT_AS, (lim, lim))
    else:
        pre = os.setsid
    p = subprocess.Popen(cmd, cwd=cwd, env=env, stdout=subprocess.PIPE, stderr=subprocess.PIPE, preexec_fn=pre, text=True)
    try:
        out, err = p.communicate(timeout=timeout)
        to = False
    except subprocess.TimeoutExpired:
        try:
            os.killpg(p.pid, signal.SIGKILL)
        except ProcessLookupError:
            pass
        out, err = p.communicate()
        to = True
    return {'rc': p.returncode, 'out': out, 'err': err, 'timeout': to, 'wall': time.time() - t0}


def verus_run(path, rlimit, timeout=600, extra=None):
    cmd = ['verus', path, '--output-json', '--time', '--error-format=json', '--rlimit', str(rlimit), '--multiple-errors', '20'] + list(extra or [])
    r = run_cmd(cmd, cwd=os.path.dirname(path), timeout=timeout)
    diags = []
    raw_err = []
    for line in r['err'].split('\n'):
        line = line.strip()
        if line.startswith('{'):
            try:
                diags.append(json.loads(line))
                continue
            except json.JSONDecodeError:
                pass
        if line:
            raw_err.append(line)
    summary = None
    try:
        summary = json.loads(r['out']) if r['out'].strip().startswith('{') else None
    except json.JSONDecodeError:
        summary = None
    return {'cmd': ' '.join(cmd), 'rc': r['rc'], 'diags': diags, 'raw_err': raw_err, 'summary': summary,
            'timeout': r['timeout'], 'wall': r['wall']}


def classify_verus(vr, meta):
    """-> (status, failed[list of dict], undecided_reasons[list of str])"""
    failed, undec = [], []
    ob_lines = meta['ob_lines']
    fn_ranges = meta['fn_ranges']

    def fn_of(line):
        for name, a, b in fn_ranges:
            if a <= line <= b:
                return name
        return None

    if vr['timeout']:
        undec.append('verus timed out')
    for d in vr['diags']:
        if d.get('level') != 'error':
            continue
        msg = d.get('message', '')
        if msg.startswith('aborting due to'):
            continue
        spans = d.get('spans', [])
        if any(p in msg for p in REFUTE_PATTERNS):
            name = None
            prim_line = None
            for sp in spans:
                if sp.get('is_primary'):
                    prim_line = sp['line_start']
            # a labelled secondary span names the failed clause
            for sp in spans:
                lab = sp.get('label') or ''
                if 'failed th' in lab or 'failed precondition' in lab:
                    for ln in range(sp['line_start'], sp['line_end'] + 1):
                        if ln in ob_lines:
                            name = ob_lines[ln]
                            clause_line = ln
            if name is None and prim_line in ob_lines:
                name = ob_lines[prim_line]
            fn = fn_of(prim_line) if prim_line else None
            if 'precondition not satisfied' in msg:
                # the failed clause belongs to the callee; the obligation is the caller's call site
                callee_clause = name
                name = (fn or '?') + '.safety'
                failed.append({'name': name, 'function': fn, 'message': msg, 'line': prim_line, 'callee_clause': callee_clause})
                continue
            if name is None:
                name = (fn or '?') + '.safety'
            failed.append({'name': name, 'function': fn, 'message': msg, 'line': prim_line})
        elif any(p in msg for p in UNDECIDED_PATTERNS):
            undec.append(msg)
        else:
            undec.append('compile/front-end error: ' + msg)
    s = vr['summary']
    res = (s or {}).get('verification-results', {})
    if not s:
        undec.append('no verus summary (rc=%s): %s' % (vr['rc'], ' | '.join(vr['raw_err'][:5])))
    elif not res.get('success') and not failed and not undec:
        undec.append('verus reported failure without a classified diagnostic: ' + ' | '.join(vr['raw_err'][:5]))
    if res.get('encountered-vir-error'):
        undec.append('verus front-end (VIR) error')
    if failed and not undec:
        return 'violation', failed, undec
    if undec:
        return 'undecided', failed, undec
    if res.get('success'):
        return 'pass', failed, undec
    return 'undecided', failed, ['unknown verus outcome']


def smt_times(summary):
    out = {}
    t = (summary or {}).get('times-ms', {})
    out['total_ms'] = t.get('total')
    smt = t.get('smt', {})
    out['smt_total_ms'] = smt.get('total') if isinstance(smt, dict) else None
    per = {}
    if isinstance(smt, dict):
        for mod in smt.get('smt-run-module-times', []) or []:
            for fb in mod.get('function-breakdown', []) or []:
                per[fb.get('function')] = fb.get('time-micros', 0) / 1000.0
    out['per_function_ms'] = per
    return out


def run_verus_unit(u, workdir, tier, do_canaries=True):
    unit = u['unit']
    t0 = time.time()
    res = {'unit': unit, 'engine': 'verus', 'status': 'undecided', 'failed': [], 'undecided': [], 'obligations': [],
           'functions': [], 'assumed': [], 'trusted': u.get('trusted', []), 'transformations': [], 'canaries': {},
           'backend': 'Verus 0.2026.09.13 (z3)', 'bounded': []}
    try:
        text, meta, _ = assemble_verus.assemble(u['_path'], REPO)
    except (ExtractError, LexError) as e:
        res['undecided'].append('extraction: %s' % e)
        res['wall'] = time.time() - t0
        return res
    except FileNotFoundError as e:
        res['undecided'].append('extraction: %s' % e)
        res['wall'] = time.time() - t0
        return res
    if u.get('schema_sha256'):
        # a unit whose contracts were GENERATED from the .mol schemas: if the schemas changed since, the contracts no longer
        # say what the schema says -- undecided until regenerated (tools/gen_c15_dyn.py)
        dg = hashlib.sha256()
        try:
            for sname in ('blockchain', 'extensions', 'protocols'):
                with open(os.path.join(REPO, 'util/gen-types/schemas', sname + '.mol'), 'rb') as f:
                    dg.update(f.read())
        except OSError as e:
            res['undecided'].append('extraction: schema file: %s' % e)
            res['wall'] = time.time() - t0
            return res
        if dg.hexdigest() != u['schema_sha256']:
            res['undecided'].append('the molecule schemas changed since the contracts of unit %s were generated from them' % unit)
            res['wall'] = time.time() - t0
            return res
    path = os.path.join(workdir, unit + '.rs')
    with open(path, 'w') as f:
        f.write(text)
    res['assembled_sha256'] = hashlib.sha256(text.encode()).hexdigest()
    res['witness_map'] = u.get('witness', {})
    res['obligations'] = meta['obligations']
    res['functions'] = meta['functions']
    res['assumed'] = meta['assumed']
    res['transformations'] = meta['transformations']
    res['assumption_scan'] = meta['assumption_scan']
    rlimit = u.get('rlimit', 40) * (2 if tier == 'thorough' and u.get('thorough_double_rlimit') else 1)
    vr = verus_run(path, rlimit, timeout=u.get('timeout', 600))
    res['cmd'] = vr['cmd'].replace(path, '<assembled %s.rs>' % unit)
    status, failed, undec = classify_verus(vr, meta)
    res['status'], res['failed'], res['undecided'] = status, failed, undec
    vres = (vr['summary'] or {}).get('verification-results', {})
    res['verus_verified'] = vres.get('verified')
    res['verus_errors'] = vres.get('errors')
    res['times'] = smt_times(vr['summary'])
    res['verifier_output'] = [d.get('rendered') or d.get('message') for d in vr['diags'] if d.get('level') == 'error'][:20]
    # ledger
    led = load_ledger(unit)
    cur_names = {o['name'] for o in meta['obligations']} | {f['function'] + '.safety' for f in meta['functions']}
    res['all_names'] = sorted(cur_names)
    if led is None:
        res['undecided'].append('no ledger for unit %s (run ./check ledger --write)' % unit)
        res['status'] = 'undecided' if res['status'] == 'pass' else res['status']
    else:
        missing = [n for n in led['obligations'] if n not in cur_names and n not in meta.get('moot', [])]
        if missing:
            res['undecided'].append('ledger obligations no longer generated: %s' % ', '.join(missing[:5]))
            res['status'] = 'undecided'
        for a in meta['assumed']:
            if a.get('proved_in'):
                continue    # proved on the CURRENT text by that unit, which check_property runs in the same check (dependency closure)
            want = led.get('assumed_hashes', {}).get(a['function'])
            if want is None and 'assumed_hashes' in led:
                res['undecided'].append('assumption %s is not in the ledger' % a['function'])
                if res['status'] == 'pass':
                    res['status'] = 'undecided'
            if want and want != a['sha256']:
                res['undecided'].append('assumed contract of %s no longer validated (its text changed)' % a['function'])
                if res['status'] == 'pass':
                    res['status'] = 'undecided'
        want_scan = led.get('assumption_scan')
        if want_scan and want_scan != meta['assumption_scan']:
            res['undecided'].append('assumption scan mismatch: %s vs ledger %s' % (meta['assumption_scan'], want_scan))
            if res['status'] == 'pass':
                res['status'] = 'undecided'
        if res['status'] == 'violation':
            # only ledger obligations count as violations
            inled = [f for f in res['failed'] if f['name'] in led['obligations']]
            if not inled:
                res['status'] = 'undecided'
                res['undecided'].append('failed obligations are not in the ledger: %s' % ', '.join(f['name'] for f in res['failed']))
            else:
                res['failed'] = inled
    # canaries (vacuity guard): `ensures false` on each function under contract must FAIL
    if do_canaries and status == 'pass':
        targets = [f for f in meta['functions'] if f['has_contract']]
        skip = set(u.get('no_canary', []))
        targets = [f for f in targets if f['function'] not in skip]
        if u.get('canary_only'):
            # big generated units of uniform contracts WITHOUT preconditions: vacuity can only come from the shared prelude
            # (assumed callee contracts, axioms), so one representative function per kind carries the canary
            targets = [f for f in targets if any(c in f['function'] for c in u['canary_only'])]

        def fast_canary(f):
            # big generated units: the canary text is the assembled text with `false, // @canary` added after the last ensures
            # clause of the function's block (the same line the assembler would add), instead of a second assembly of 900 items
            lines = text.split('\n')
            start = None
            for i_, l_ in enumerate(lines):
                if l_.startswith('// @fn %s  [' % f['function']):
                    start = i_
                    break
            if start is None:
                return None
            last_ob = None
            for i_ in range(start + 1, len(lines)):
                if lines[i_].startswith('// @endfn') or lines[i_].lstrip().startswith('{'):
                    break
                if '// @ob ' in lines[i_]:
                    last_ob = i_
            if last_ob is None or 'ensures' not in '\n'.join(lines[start:last_ob + 1]):
                return None
            # the clause must belong to the ensures block (requires clauses come first)
            seen_ens = False
            for i_ in range(start + 1, last_ob + 1):
                if lines[i_].strip() == 'ensures':
                    seen_ens = True
            if not seen_ens:
                return None
            lines.insert(last_ob + 1, '        false, // @canary')
            return '\n'.join(lines), {'ob_lines': {last_ob + 2: '@canary'}}

        def one(f):
            fc = fast_canary(f) if u.get('canary_only') else None
            try:
                if fc is not None:
                    ctext, cmeta = fc
                else:
                    ctext, cmeta, _ = assemble_verus.assemble(u['_path'], REPO, canary=f['item_index'])
            except Exception as e:  # noqa
                return f['function'], 'error: %s' % e
            cpath = os.path.join(workdir, '%s_canary%d.rs' % (unit, f['item_index']))
            with open(cpath, 'w') as fh:
                fh.write(ctext)
            extra = None
            if u.get('canary_only'):
                # big generated units: the canary run verifies ONLY the function that carries the canary
                # (`--verify-function Type::name`), not the whole file again
                mt_ = re.search(r"(?:for\s+|impl\s+)([A-Za-z_][A-Za-z0-9_]*)\s*(?:<[^>]*>)?\s*(?:#\d+)?::fn\s+([A-Za-z_][A-Za-z0-9_]*)\s*$", f['function'])
                if mt_:
                    extra = ['--verify-root', '--verify-function', '%s::%s' % (mt_.group(1), mt_.group(2))]
            cr = verus_run(cpath, rlimit, timeout=u.get('timeout', 600), extra=extra)
            hit = False
            for d in cr['diags']:
                if d.get('level') != 'error':
                    continue
                for sp in d.get('spans', []):
                    for ln in range(sp['line_start'], sp['line_end'] + 1):
                        if cmeta['ob_lines'].get(ln) == '@canary':
                            hit = True
            sres = (cr['summary'] or {}).get('verification-results', {})
            if hit:
                return f['function'], 'refuted(ok)'
            if sres.get('success'):
                return f['function'], 'VACUOUS'
            return f['function'], 'inconclusive'
        if u.get('canary_mode') == 'all':
            # big generated units: ONE extra run in which every function under contract carries `ensures false`; each of them
            # has to be refuted on its own canary line
            try:
                ctext, cmeta, _ = assemble_verus.assemble(u['_path'], REPO, canary='all')
                cpath = os.path.join(workdir, '%s_canary_all.rs' % unit)
                with open(cpath, 'w') as fh:
                    fh.write(ctext)
                cr = verus_run(cpath, rlimit, timeout=u.get('timeout', 600))
                canary_lines = sorted(ln for ln, v in cmeta['ob_lines'].items() if v == '@canary')
                hit_lines = set()
                for d in cr['diags']:
                    if d.get('level') != 'error':
                        continue
                    for sp in d.get('spans', []):
                        for ln in range(sp['line_start'], sp['line_end'] + 1):
                            if cmeta['ob_lines'].get(ln) == '@canary':
                                hit_lines.add(ln)
                res['canaries']['all'] = 'refuted(ok)' if canary_lines and set(canary_lines) == hit_lines else \
                    'not refuted on %d of %d canary lines' % (len(set(canary_lines) - hit_lines), len(canary_lines))
            except Exception as e:  # noqa
                res['canaries']['all'] = 'error: %s' % e
            targets = []
        with cf.ThreadPoolExecutor(max_workers=int(os.environ.get('VERIF_JOBS', '8'))) as ex:
            for fn, r in ex.map(one, targets):
                res['canaries'][fn] = r
        bad = [k for k, v in res['canaries'].items() if v != 'refuted(ok)']
        if bad:
            res['status'] = 'undecided'
            res['undecided'].append('vacuity canary did not fail for: %s' % ', '.join('%s=%s' % (k, res['canaries'][k]) for k in bad))
    res['wall'] = time.time() - t0
    return res


# ------------------------------------------------------------------------------------------------
# Driver
# ------------------------------------------------------------------------------------------------

def run_unit(u, workdir, tier):
    if u['engine'] == 'verus':
        return run_verus_unit(u, workdir, tier)
    if u['engine'] in ('kani-overlay', 'kani-extract'):
        import kani_units
        return kani_units.run_kani_unit(u, workdir, tier, REPO)
    raise ValueError('unknown engine %s' % u['engine'])


def write_replay(pid, unit_res, f, witness=None):
    os.makedirs(os.path.join(ROOT, 'replays'), exist_ok=True)
    safe = re.sub(r'[^A-Za-z0-9_.-]', '_', f['name'])
    rel = 'replays/%s-%s.json' % (pid, safe)
    fn_sha = None
    for fn in unit_res['functions']:
        if fn['function'] == f.get('function'):
            fn_sha = fn['sha256']
    doc = {'property': pid, 'unit': unit_res['unit'], 'engine': unit_res['engine'], 'failed_obligation': f['name'],
           'function': f.get('function'), 'function_text_sha256': fn_sha, 'verifier_message': f.get('message'),
           'callee_clause': f.get('callee_clause'),
           'verifier_output': unit_res.get('verifier_output'), 'checker_cmd': unit_res.get('cmd'),
           'witness': witness,
           'how_to_replay': './check %s --replay %s' % (pid, rel)}
    if f.get('trace'):
        doc['counterexample_trace'] = f['trace']
    with open(os.path.join(ROOT, rel), 'w') as fh:
        json.dump(doc, fh, indent=1)
    return rel


def check_property(pid, tier, only_units=None):
    t0 = time.time()
    units = load_units()
    sel = [u for u in units.values() if pid in u.get('serves', []) and (tier == 'thorough' or u.get('tier', 'quick') == 'quick')]
    if only_units:
        sel = [u for u in sel if u['unit'] in only_units]
    if not sel:
        log('no units serve %s' % pid)
        return 2
    # dependency closure: a unit that uses contracts proved in another unit ([[include]] / proved_in) is only as good as
    # that proof on the CURRENT tree, so the proving units are run too.  A failure there counts for this property only
    # when it is in a function whose contract is actually used (the include's `only` list).
    dep_used = {}
    def add_deps(u):
        incs = [(inc['unit'], inc.get('only')) for inc in u.get('include', [])]
        incs += [(it['proved_in'], [it['path']]) for it in u.get('item', []) if it.get('proved_in')]
        for name, only in incs:
            if name not in units:
                continue
            fresh = name not in dep_used and name not in {s['unit'] for s in sel}
            cur = dep_used.setdefault(name, set())
            if only is None:
                cur.add('*')
            else:
                cur.update(only)
            if fresh:
                add_deps(units[name])
    for u in list(sel):
        add_deps(u)
    deps = [units[n] for n in sorted(dep_used) if n not in {s['unit'] for s in sel}]
    for d in deps:
        d['_dependency_only'] = sorted(dep_used[d['unit']])
    sel = sel + deps
    workdir = os.path.join(SCRATCH_BASE, 'ckbverif.%s.%d' % (pid, os.getpid()))
    os.makedirs(workdir, exist_ok=True)
    results = []
    try:
        verus_units = [u for u in sel if u['engine'] == 'verus']
        kani_units_ = [u for u in sel if u['engine'] != 'verus']
        with cf.ThreadPoolExecutor(max_workers=8) as ex:
            futs = [ex.submit(run_unit, u, workdir, tier) for u in verus_units]
            # Kani units share one scratch workspace: run them sequentially in this thread
            for u in kani_units_:
                results.append(run_unit(u, workdir, tier))
            for f in futs:
                results.append(f.result())
    finally:
        shutil.rmtree(workdir, ignore_errors=True)
    results.sort(key=lambda r: r['unit'])
    # verdict
    kf = known_findings()
    violations = []
    known = []
    for r in results:
        used = units[r['unit']].get('_dependency_only')
        if used is not None:
            r['role'] = 'dependency: contracts of this unit are used through [[include]] by a unit serving %s' % pid
            if r['status'] == 'violation' and '*' not in used:
                r['failed_not_used_here'] = [f for f in r['failed'] if f.get('function') not in used]
                r['failed'] = [f for f in r['failed'] if f.get('function') in used]
                if not r['failed']:
                    r['status'] = 'pass'
                    r['note'] = 'failures in this unit are in functions whose contracts this property does not use'
        if r['status'] == 'violation':
            for f in r['failed']:
                is_known = None
                for k in kf['open']:
                    if k['property'] == pid and ('obligation=' + f['name']) in k['rest']:
                        is_known = k
                if is_known:
                    known.append((r, f, is_known))
                else:
                    violations.append((r, f))
    for r in results:
        if r['status'] == 'violation' and r['failed'] and all(any(kr is r and kf_ is f for (kr, kf_, _k) in known) for f in r['failed']):
            r['status'] = 'known-finding'     # every undischarged obligation of this unit is listed in known_findings.txt
    undecided = [r for r in results if r['status'] == 'undecided']
    write_evidence(pid, tier, results, violations, time.time() - t0, known)
    for r, f, k in known:
        print('KNOWN-FINDING: property=%s %s' % (pid, k['rest']))
    for r in results:
        log('[%s] unit %-22s %-10s obligations=%d verified_fns=%s wall=%.1fs' % (
            pid, r['unit'], r['status'], len(r['obligations']), r.get('verus_verified', r.get('harnesses_ok')), r.get('wall', 0)))
        for msg in r['undecided']:
            log('    undecided: %s' % msg[:400])
    if violations:
        seen = set()
        for r, f in violations:
            if (r['unit'], f['name']) in seen:
                continue
            seen.add((r['unit'], f['name']))
            witness = f.get('witness')
            if witness is None and os.environ.get('VERIF_NO_WITNESS') != '1':
                try:
                    import replay as replay_mod
                    wdir = os.path.join(SCRATCH_BASE, 'ckbverif.wit.%d' % os.getpid())
                    os.makedirs(wdir, exist_ok=True)
                    witness = replay_mod.find_witness(r, f, wdir, REPO)
                except Exception as e:  # noqa
                    log('    witness search failed: %s' % e)
            rel = write_replay(pid, r, f, witness)
            tail = '' if witness else ' no-failing-input-found'
            print('VIOLATION property=%s replay=%s%s' % (pid, rel, tail))
            log('    failed obligation %s in %s: %s' % (f['name'], f.get('function'), f.get('message')))
        shutil.rmtree(os.path.join(SCRATCH_BASE, 'ckbverif.wit.%d' % os.getpid()), ignore_errors=True)
        return 1
    if undecided:
        log('UNDECIDED property=%s (%d unit(s)); no alarm raised' % (pid, len(undecided)))
        return 2
    print('OK property=%s units=%d obligations=%d' % (pid, len(results), sum(count_obligations(r)[0] for r in results)))
    return 0


def count_obligations(r):
    """(obligations, discharged) for one unit result"""
    if r['engine'] == 'verus':
        named = [o for o in r['obligations'] if o['kind'] != 'requires']
        n = len(named) + len(r['functions'])
        if r['status'] == 'pass' and not r.get('failed_not_used_here'):
            return n, n
        failed = {f['name'] for f in r['failed']} | {f['name'] for f in r.get('failed_not_used_here', [])}
        if r['status'] == 'pass':
            return n, max(0, n - len(failed))
        if r['status'] == 'known-finding':
            # every failed obligation of this unit is an `open:` line of known_findings.txt: those obligations are NOT part of
            # what the proof-level claim covers (the claim text says so); they are reported under coverage.known_findings
            return max(0, n - len(failed)), max(0, n - len(failed))
        return n, max(0, n - len(failed)) if r['status'] == 'violation' else 0
    n = r.get('n_obligations', 0)
    return n, r.get('n_discharged', 0)


def write_evidence(pid, tier, results, violations, wall, known=None):
    os.makedirs(os.path.join(ROOT, 'evidence'), exist_ok=True)
    obligations = discharged = 0
    units_doc = []
    trusted = []
    samples = []
    cmds = []
    for r in results:
        n, d = count_obligations(r)
        obligations += n
        discharged += d
        for t in r.get('trusted', []):
            if t not in trusted:
                trusted.append(t)
        for a in r.get('assumed', []):
            if a.get('proved_in'):
                trusted.append('callee contract of %s used in unit %s is the one proved in unit %s (same TOML text)' % (a['function'], r['unit'], a['proved_in']))
            else:
                trusted.append('ASSUMED CONTRACT (real function, body not verified, text hash pinned): %s' % a['function'])
        if r.get('cmd'):
            cmds.append(r['cmd'])
        for o in r['obligations'][:400]:
            if o['kind'] != 'requires' and len(samples) < 60:
                samples.append({'obligation': o['name'], 'function': o['function'], 'kind': o['kind'], 'contract': o['text'][:300]})
        units_doc.append({
            'unit': r['unit'], 'engine': r['engine'], 'backend': r.get('backend'), 'status': r['status'], 'role': r.get('role', 'serves the property'),
            'functions_under_contract': [{'function': f['function'], 'file': f['file'], 'sha256': f['sha256']} for f in r['functions']],
            'obligations_named': [o['name'] for o in r['obligations'] if o['kind'] != 'requires'],
            'preconditions_stated': [{'name': o['name'], 'text': o['text'][:300]} for o in r['obligations'] if o['kind'] == 'requires'],
            'verus_functions_verified': r.get('verus_verified'),
            'solver_time': r.get('times'),
            'transformations_fired': r.get('transformations'),
            'assumption_scan': r.get('assumption_scan'),
            'vacuity_canaries': r.get('canaries'),
            'bounded_standins_NOT_counted': r.get('bounded', []),
            'undecided': r.get('undecided'),
            'failed': r.get('failed'),
            'failed_in_functions_not_used_by_this_property': r.get('failed_not_used_here'),
            'harnesses': r.get('harnesses'),
            'wall_s': round(r.get('wall', 0), 2),
        })
    trusted += ['Verus 0.2026.09.13 + z3; Kani 0.68 + CBMC 6.11 (where used); rustc front ends',
                'the extractor and its closed transformation list (DESIGN.md 2.1); dropped statements are limited to logging/metrics/failpoint macros']
    doc = {
        'property_id': pid, 'tier': tier, 'seed': int(os.environ.get('VERIF_SEED', '0') or 0), 'level': 'proof',
        'coverage': {
            'obligations': obligations, 'discharged': discharged,
            'known_findings': [{'unit': r_['unit'], 'obligation': f_['name'], 'function': f_.get('function'), 'listed_as': k_['line'][:400]} for (r_, f_, k_) in (known or [])],
            'checker_cmd': ' ; '.join(cmds) if cmds else 'none',
            'trusted_base': trusted,
            'samples': samples,
            'units': units_doc,
            'explanation': 'An obligation that fails on the unchanged tree and is listed as an `open:` known finding is excluded from both counts and listed under known_findings. obligations = named ensures/invariant/loop-exit clauses + one safety obligation per function (overflow, callee preconditions, termination) for Verus units; Kani units count one obligation per contract/harness property checked over the full symbolic domain. Bounded stand-ins are listed separately and not counted. Units with role `dependency` are units whose proved contracts are used (through [[include]]) by a unit serving this property; they are re-verified in the same run on the current tree and their obligations are included in the totals.',
        },
        'assumptions': trusted,
        'wall_s': round(wall, 2),
        'violations': len(violations),
    }
    with open(os.path.join(ROOT, 'evidence', pid + '.json'), 'w') as f:
        json.dump(doc, f, indent=1)


def write_ledger(names=None, force=False):
    units = load_units()
    os.makedirs(os.path.join(ROOT, 'ledger'), exist_ok=True)
    workdir = os.path.join(SCRATCH_BASE, 'ckbverif.ledger.%d' % os.getpid())
    os.makedirs(workdir, exist_ok=True)
    rc = 0
    try:
        for name, u in units.items():
            if names and name not in names:
                continue
            if u['engine'] == 'verus':
                text, meta, _ = assemble_verus.assemble(u['_path'], REPO)
                path = os.path.join(workdir, name + '.rs')
                open(path, 'w').write(text)
                vr = verus_run(path, u.get('rlimit', 40), timeout=u.get('timeout', 600))
                status, failed, undec = classify_verus(vr, meta)
                if status != 'pass':
                    log('ledger: unit %s does not verify (%s): %s %s' % (name, status, [f['name'] for f in failed], undec[:3]))
                    if not force or status != 'violation':
                        rc = 1
                        continue
                    log('ledger: --force: recording the obligation names anyway (the failing ones are expected to be repaired in /repo)')
                obs = sorted({o['name'] for o in meta['obligations']} | {f['function'] + '.safety' for f in meta['functions']})
                led = {'unit': name, 'tree': subprocess.run(['git', '-C', REPO, 'rev-parse', 'HEAD'], capture_output=True, text=True).stdout.strip(),
                       'obligations': obs,
                       'assumed_hashes': {a['function']: a['sha256'] for a in meta['assumed']},
                       'assumption_scan': meta['assumption_scan'],
                       'verus_verified': (vr['summary'] or {}).get('verification-results', {}).get('verified')}
            else:
                import kani_units
                led = kani_units.make_ledger(u, workdir, REPO)
                if led is None:
                    rc = 1
                    continue
            with open(os.path.join(ROOT, 'ledger', name + '.json'), 'w') as f:
                json.dump(led, f, indent=1)
            log('ledger written: %s (%d obligations)' % (name, len(led['obligations'])))
    finally:
        shutil.rmtree(workdir, ignore_errors=True)
    return rc


def main(argv):
    if not argv:
        print(__doc__)
        return 2
    if argv[0] == 'ledger':
        return write_ledger([a for a in argv[1:] if not a.startswith('--')] or None, force='--force' in argv)
    if argv[0] == 'units':
        for n, u in load_units().items():
            print(n, u['engine'], u.get('tier', 'quick'), u.get('serves'))
        return 0
    if argv[0] == 'assemble':
        u = load_units()[argv[1]]
        text, meta, _ = assemble_verus.assemble(u['_path'], REPO)
        out = argv[2] if len(argv) > 2 else '/dev/stdout'
        open(out, 'w').write(text)
        return 0
    pid = argv[0]
    tier = os.environ.get('VERIF_TIER', 'quick')
    only = None
    i = 1
    while i < len(argv):
        if argv[i] == '--tier':
            tier = argv[i + 1]
            i += 2
        elif argv[i] == '--units':
            only = argv[i + 1].split(',')
            i += 2
        elif argv[i] == '--replay':
            import replay
            return replay.replay(pid, argv[i + 1])
        else:
            i += 1
    if tier not in ('quick', 'thorough'):
        tier = 'quick'
    return check_property(pid, tier, only)


if __name__ == '__main__':
    # an internal error of the machinery is never a verdict about /repo: it is reported as undecided (exit 2),
    # so that only a named failed obligation can ever produce exit 1
    try:
        rc = main(sys.argv[1:])
    except (SystemExit, KeyboardInterrupt):
        raise
    except BaseException:
        import traceback
        traceback.print_exc()
        print('UNDECIDED internal error of the checking machinery (see the traceback above); no verdict')
        sys.stdout.flush()
        sys.exit(2)
    sys.exit(rc)
