"""Item extractor over the real /repo sources.

Locates items by *syntactic path* ("impl Foo::fn bar", "mod m::struct S", "const X", ...), never by
line number, and returns their text together with the token positions the assembler needs for
its mechanical splices (signature end, return type, body, loops, closures, statement anchors).
"""
import re
from rustlex import Src, LexError

ITEM_KW = ('fn', 'struct', 'enum', 'union', 'const', 'static', 'type', 'mod', 'impl', 'trait', 'use',
           'macro_rules', 'extern')
QUALS = ('pub', 'const', 'async', 'unsafe', 'default', 'extern', 'crate')


class ExtractError(Exception):
    """lost anchor: the path / loop / statement the contract names is not in the current tree"""


def _ws(s):
    return re.sub(r'\s+', ' ', s).strip()


def _strip_angles(s):
    out, d = [], 0
    i = 0
    while i < len(s):
        c = s[i]
        if c == '<':
            d += 1
        elif c == '>' and d > 0 and not (i > 0 and s[i - 1] == '-'):
            d -= 1
        elif d == 0:
            out.append(c)
        i += 1
    return _ws(''.join(out))


class Item:
    def __init__(self, src, kind, name, k_first, k_kw, k_last, keys):
        self.src = src
        self.kind = kind
        self.name = name
        self.k_first = k_first      # first token (attribute / visibility)
        self.k_kw = k_kw            # the item keyword token
        self.k_last = k_last        # last token ('}' or ';')
        self.keys = keys            # path-segment spellings that select this item

    @property
    def start(self):
        return self.src.t[self.k_first][1]

    @property
    def end(self):
        return self.src.t[self.k_last][2]

    def text(self):
        return self.src.text[self.start:self.end]

    def body_range(self):
        """token indexes of the '{' and '}' of a braced item (impl/mod/trait/fn/struct), or None"""
        s = self.src
        if s.is_p(self.k_last, '}'):
            return s.match()[self.k_last], self.k_last
        return None


def parse_items(src, k_lo, k_hi):
    """items between token indexes [k_lo, k_hi)"""
    s = src
    m = s.match()
    items = []
    k = k_lo
    while k < k_hi:
        k_first = k
        # outer attributes
        while s.is_p(k, '#'):
            j = k + 1
            if s.is_p(j, '!'):
                j += 1
            if not s.is_p(j, '['):
                break
            k = m[j] + 1
        # visibility and qualifiers
        kk = k
        while kk < k_hi:
            if s.is_id(kk) and s.s(kk) in ('pub', 'async', 'unsafe', 'default'):
                kk += 1
                if s.is_p(kk, '(') and s.s(kk - 1) == 'pub':
                    kk = m[kk] + 1
                continue
            if s.is_id(kk, 'const') and s.is_id(kk + 1) and s.s(kk + 1) in ('fn', 'unsafe', 'async', 'extern'):
                kk += 1
                continue
            if s.is_id(kk, 'extern') and s.kind(kk + 1) == 'lit' and s.is_id(kk + 2, 'fn'):
                kk += 2
                continue
            break
        if kk >= k_hi:
            break
        if not s.is_id(kk):
            # stray token (e.g. ';') -- skip
            k = kk + 1
            continue
        kw = s.s(kk)
        name = None
        keys = []
        if kw in ('fn', 'struct', 'enum', 'union', 'type', 'mod', 'trait', 'const', 'static'):
            j = kk + 1
            if kw in ('const', 'static') and s.is_id(j, 'mut'):
                j += 1
            if kw == 'unsafe':
                j += 1
            name = s.s(j) if j < k_hi else '?'
            keys = ['%s %s' % (kw, name)]
        elif kw == 'impl':
            pass
        elif kw == 'use' or kw == 'extern':
            name = ''
        elif s.is_p(kk + 1, '!') or s.is_p(kk + 1, '::'):
            # macro invocation item:  name! { ... }  /  path::name!( ... );
            j = kk + 1
            while s.is_p(j, '::') and s.is_id(j + 1):
                j += 2
            if not s.is_p(j, '!'):
                raise ExtractError('cannot parse item at token %r (offset %d)' % (kw, s.t[kk][1]))
            j += 1
            if s.is_id(j):      # macro_rules! name { }
                name = s.s(j)
                j += 1
            kw_m = 'macro ' + s.s(kk)
            close = m[j]
            k_last = close
            if s.is_p(close + 1, ';'):
                k_last = close + 1
            items.append(Item(s, 'macro', name or s.s(kk), k_first, kk, k_last, [kw_m + (' ' + name if name else '')]))
            k = k_last + 1
            continue
        else:
            raise ExtractError('cannot parse item at token %r (offset %d)' % (kw, s.t[kk][1]))
        # find the end: first ';' or '{...}' at depth 0
        j = kk + 1
        k_last = None
        brace_items = kw in ('fn', 'struct', 'enum', 'union', 'mod', 'impl', 'trait', 'extern')
        while j < k_hi:
            if s.kind(j) == 'p':
                ch = s.s(j)
                if ch == ';':
                    k_last = j
                    break
                if ch == '{' and brace_items:
                    k_last = m[j]
                    break
                if ch in '([{':
                    j = m[j] + 1
                    continue
            j += 1
        if k_last is None:
            raise ExtractError('unterminated item %s %s' % (kw, name))
        if kw == 'impl':
            # header text between 'impl' and '{' without leading generics / where clause
            h0 = kk + 1
            if s.is_p(h0, '<'):
                d = 0
                while True:
                    if s.is_p(h0, '<'):
                        d += 1
                    elif s.is_p(h0, '>'):
                        d -= 1
                        if d == 0:
                            h0 += 1
                            break
                    h0 += 1
            h1 = m[k_last]
            hw = h1
            for q in range(h0, h1):
                if s.is_id(q, 'where'):
                    hw = q
                    break
            header = _ws(s.text[s.t[h0][1]:s.t[hw - 1][2]])
            keys = ['impl ' + header, 'impl ' + _strip_angles(header)]
            name = header
        items.append(Item(s, kw, name, k_first, kk, k_last, keys))
        k = k_last + 1
    return items


def locate(src, path):
    """path: 'impl Foo::fn bar' segments joined by '::' (a '::' inside <...> or (...) does not split)."""
    segs = []
    d = 0
    cur = ''
    i = 0
    while i < len(path):
        c = path[i]
        if c in '<(':
            d += 1
        elif c in '>)' and not (c == '>' and i > 0 and path[i - 1] == '-'):
            d -= 1
        if d == 0 and path.startswith('::', i) and re.match(r'\s*(fn|struct|enum|union|const|static|type|mod|impl|trait|macro)\b', path[i + 2:]):
            segs.append(cur.strip())
            cur = ''
            i += 2
            continue
        cur += c
        i += 1
    segs.append(cur.strip())
    lo, hi = 0, len(src.t)
    item = None
    for si, seg in enumerate(segs):
        nth = None
        mm = re.match(r'^(.*)#(\d+)$', seg)
        if mm:
            seg, nth = mm.group(1).strip(), int(mm.group(2))
        seg = _ws(seg)
        cands = [it for it in parse_items(src, lo, hi) if seg in it.keys]
        if not cands:
            raise ExtractError('lost anchor: no item %r (segment %d of %r)' % (seg, si, path))
        if len(cands) > 1 and nth is None:
            raise ExtractError('ambiguous anchor %r (%d matches) in %r' % (seg, len(cands), path))
        item = cands[nth or 0]
        br = item.body_range()
        if br:
            lo, hi = br[0] + 1, br[1]
    return item


class FnParts:
    """token positions inside a fn item"""

    def __init__(self, item):
        s = item.src
        m = s.match()
        self.item = item
        self.src = s
        k = item.k_kw + 2          # after `fn name`
        if s.is_p(k, '<'):
            d = 0
            while True:
                if s.is_p(k, '<'):
                    d += 1
                elif s.is_p(k, '>'):
                    d -= 1
                    if d == 0:
                        k += 1
                        break
                k += 1
        if not s.is_p(k, '('):
            raise ExtractError('fn %s: parameter list not found' % item.name)
        self.k_popen = k
        self.k_pclose = m[k]
        self.k_body_open = None
        self.k_arrow = None
        self.k_where = None
        j = self.k_pclose + 1
        while j <= item.k_last:
            if s.is_p(j, '{'):
                self.k_body_open = j
                break
            if s.is_p(j, ';'):
                break
            if s.is_p(j, '->') and self.k_arrow is None and self.k_where is None:
                self.k_arrow = j
            if s.is_id(j, 'where') and self.k_where is None:
                self.k_where = j
            if s.kind(j) == 'p' and s.s(j) in '([':
                j = m[j] + 1
                continue
            j += 1
        self.k_body_close = m[self.k_body_open] if self.k_body_open is not None else None

    def ret_type_range(self):
        """text offsets [a,b) of the return type (after '->')"""
        if self.k_arrow is None:
            return None
        s = self.src
        a = s.t[self.k_arrow][2]
        end_tok = self.k_where if self.k_where is not None else (self.k_body_open if self.k_body_open is not None else self.item.k_last)
        b = s.t[end_tok - 1][2]
        return a, b

    def loops(self):
        """[(k_keyword, k_body_open)] for while/loop/for inside the body, source order"""
        s = self.src
        m = s.match()
        res = []
        k = self.k_body_open + 1
        while k < self.k_body_close:
            if s.is_id(k) and s.s(k) in ('while', 'loop', 'for'):
                # `for` inside `impl ... for` / HRTB `for<'a>` cannot occur in a body except HRTB
                if s.s(k) == 'for' and s.is_p(k + 1, '<'):
                    k += 1
                    continue
                j = k + 1
                while j < self.k_body_close:
                    if s.is_p(j, '{'):
                        break
                    if s.kind(j) == 'p' and s.s(j) in '([':
                        j = m[j] + 1
                        continue
                    j += 1
                res.append((k, j))
            k += 1
        return res

    def closures(self):
        """[(k_open_bar, k_close_bar)] closure parameter lists in expression position"""
        s = self.src
        res = []
        k = self.k_body_open + 1
        prev_ok = {'(', ',', '=', '{', ';', '=>', 'return', 'move', '&&', '||', '!', '[', ':'}
        while k < self.k_body_close:
            if s.kind(k) == 'p' and s.s(k) in ('|', '||'):
                pk = s.s(k - 1)
                if pk in prev_ok or (s.is_id(k - 1) and pk in ('return', 'move')):
                    if s.s(k) == '||':
                        res.append((k, k))
                        k += 1
                        continue
                    j = k + 1
                    d = 0
                    while j < self.k_body_close:
                        if s.kind(j) == 'p':
                            c = s.s(j)
                            if c in '([<':
                                d += 1
                            elif c in ')]>':
                                d -= 1
                            elif c == '|' and d <= 0:
                                break
                        j += 1
                    res.append((k, j))
                    k = j + 1
                    continue
            k += 1
        return res

    def find_stmt(self, anchor, n=0, lo=None, hi=None):
        """n-th occurrence (token aligned) of anchor text inside the body.
        Returns (k_first_tok, k_last_tok_of_anchor)."""
        s = self.src
        want = [s2 for s2 in _tok_strings(anchor)]
        if not want:
            raise ExtractError('empty anchor')
        lo = self.k_body_open + 1 if lo is None else lo
        hi = self.k_body_close if hi is None else hi
        hits = []
        k = lo
        while k + len(want) <= hi:
            if s.s(k) == want[0] and all(s.s(k + q) == want[q] for q in range(len(want))):
                hits.append(k)
            k += 1
        if len(hits) <= n:
            raise ExtractError('lost anchor: statement %r (occurrence %d) not found in fn %s' % (anchor, n, self.item.name))
        return hits[n], hits[n] + len(want) - 1

    def stmt_end(self, k):
        """token index of the ';' ending the statement containing token k (depth-aware), or the
        closing '}' of a block statement."""
        s = self.src
        m = s.match()
        j = k
        while j < self.k_body_close:
            if s.kind(j) == 'p':
                c = s.s(j)
                if c == ';':
                    return j
                if c in '([{':
                    j = m[j] + 1
                    continue
                if c in ')]}':
                    return j - 1
            j += 1
        return self.k_body_close - 1


def _tok_strings(text):
    src = Src(text)
    return [src.s(k) for k in range(len(src.t))]


def load(path):
    with open(path, encoding='utf-8') as f:
        return Src(f.read())
