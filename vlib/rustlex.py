"""Small Rust lexer: enough to find items, match braces, and split statements.

Token = (kind, start, end) over the source text.  Kinds:
  'id'  identifier / keyword        'lt'  lifetime ('a)
  'lit' string / char / number      'p'   punctuation (multi-char ops are merged, except
                                          that '<' and '>' always stay single)
  'cm'  comment (line or block)     'doc' doc comment (/// //! /** /*!)
Whitespace is not tokenised.
"""
import re

_ID = re.compile(r'[A-Za-z_][A-Za-z0-9_]*')
_NUM = re.compile(r'[0-9][0-9A-Za-z_]*(\.[0-9][0-9A-Za-z_]*)?')
_MULTI = ['<<=', '>>=', '...', '..=', '->', '=>', '::', '..', '&&', '||', '==', '!=', '<=', '>=',
          '+=', '-=', '*=', '/=', '%=', '^=', '&=', '|=']


class LexError(Exception):
    pass


def lex(text):
    toks = []
    i, n = 0, len(text)
    while i < n:
        c = text[i]
        if c.isspace():
            i += 1
            continue
        if text.startswith('//', i):
            j = text.find('\n', i)
            j = n if j < 0 else j
            kind = 'doc' if (text.startswith('///', i) and not text.startswith('////', i)) or text.startswith('//!', i) else 'cm'
            toks.append((kind, i, j))
            i = j
            continue
        if text.startswith('/*', i):
            depth, j = 1, i + 2
            while j < n and depth:
                if text.startswith('/*', j):
                    depth += 1
                    j += 2
                elif text.startswith('*/', j):
                    depth -= 1
                    j += 2
                else:
                    j += 1
            kind = 'doc' if (text.startswith('/**', i) and not text.startswith('/***', i) and not text.startswith('/**/', i)) or text.startswith('/*!', i) else 'cm'
            toks.append((kind, i, j))
            i = j
            continue
        # raw strings / byte strings
        m = re.match(r'(b|c)?r(#*)"', text[i:i + 40])
        if m and (i == 0 or not (text[i - 1].isalnum() or text[i - 1] == '_')):
            hashes = m.group(2)
            close = '"' + hashes
            j = text.find(close, i + m.end())
            if j < 0:
                raise LexError('unterminated raw string at %d' % i)
            j += len(close)
            toks.append(('lit', i, j))
            i = j
            continue
        if c == '"' or (c in 'bc' and text.startswith('"', i + 1)):
            j = i + (2 if c != '"' else 1)
            while j < n and text[j] != '"':
                j += 2 if text[j] == '\\' else 1
            toks.append(('lit', i, j + 1))
            i = j + 1
            continue
        if c == "'" or (c == 'b' and text.startswith("'", i + 1)):
            k = i + (1 if c == 'b' else 0)
            # char literal: '\x', '\u{..}', 'c'   lifetime: 'ident not followed by '
            if text.startswith('\\', k + 1):
                j = text.find("'", k + 3)
                toks.append(('lit', i, j + 1))
                i = j + 1
                continue
            if k + 2 < n and text[k + 2] == "'":
                toks.append(('lit', i, k + 3))
                i = k + 3
                continue
            m = _ID.match(text, k + 1)
            if m:
                toks.append(('lt', i, m.end()))
                i = m.end()
                continue
            # multi-byte char literal such as '∞'
            j = text.find("'", k + 1)
            toks.append(('lit', i, j + 1))
            i = j + 1
            continue
        m = _ID.match(text, i)
        if m:
            # raw identifier r#foo
            if m.group(0) == 'r' and text.startswith('#', m.end()):
                m2 = _ID.match(text, m.end() + 1)
                if m2:
                    toks.append(('id', i, m2.end()))
                    i = m2.end()
                    continue
            toks.append(('id', i, m.end()))
            i = m.end()
            continue
        m = _NUM.match(text, i)
        if m:
            j = m.end()
            # do not swallow a range operator "0..n" or a method call "1.max(..)"
            s = text[i:j]
            if '.' in s:
                dot = s.index('.')
                after = s[dot + 1:dot + 2]
                if not after.isdigit():
                    j = i + dot
            toks.append(('lit', i, j))
            i = j
            continue
        for op in _MULTI:
            if text.startswith(op, i):
                toks.append(('p', i, i + len(op)))
                i += len(op)
                break
        else:
            toks.append(('p', i, i + 1))
            i += 1
    return toks


OPEN = {'(': ')', '[': ']', '{': '}'}
CLOSE = {')': '(', ']': '[', '}': '{'}


class Src:
    """Token view over a source text (comments removed from the token list `t`)."""

    def __init__(self, text):
        self.text = text
        self.all = lex(text)
        self.t = [x for x in self.all if x[0] not in ('cm', 'doc')]
        self._match = None

    def s(self, k):
        tok = self.t[k]
        return self.text[tok[1]:tok[2]]

    def kind(self, k):
        return self.t[k][0]

    def is_p(self, k, p):
        return 0 <= k < len(self.t) and self.t[k][0] == 'p' and self.s(k) == p

    def is_id(self, k, name=None):
        return 0 <= k < len(self.t) and self.t[k][0] == 'id' and (name is None or self.s(k) == name)

    def match(self):
        """index of the matching bracket for every bracket token"""
        if self._match is None:
            m = {}
            st = []
            for k, tok in enumerate(self.t):
                if tok[0] != 'p':
                    continue
                ch = self.text[tok[1]:tok[2]]
                if ch in OPEN:
                    st.append(k)
                elif ch in CLOSE:
                    if not st:
                        raise LexError('unbalanced %s at %d' % (ch, tok[1]))
                    o = st.pop()
                    m[o] = k
                    m[k] = o
            if st:
                raise LexError('unclosed bracket at %d' % self.t[st[-1]][1])
            self._match = m
        return self._match

    def tok_at_or_after(self, pos):
        lo, hi = 0, len(self.t)
        while lo < hi:
            mid = (lo + hi) // 2
            if self.t[mid][1] < pos:
                lo = mid + 1
            else:
                hi = mid
        return lo
