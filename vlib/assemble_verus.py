"""Assemble one Verus file per unit from items extracted from the current /repo tree plus the
contracts in contracts/<unit>.toml.  The transformation list is the one in DESIGN.md §2.1; every
transformation that fires is recorded in meta['transformations'].
"""
import hashlib
import os
import re
import tomllib

import extract
from extract import ExtractError, FnParts, Item
from rustlex import Src

HERE = os.path.dirname(os.path.abspath(__file__))
ROOT = os.path.dirname(HERE)

LOG_MACROS = {'trace', 'debug', 'info', 'warn', 'error', 'fail_point', 'debug_assert', 'debug_assert_eq',
              'debug_assert_ne', 'trace_target', 'debug_target', 'info_target', 'warn_target', 'error_target'}
ASSERT_MACROS = {'assert', 'assert_eq', 'assert_ne'}
KEEP_DERIVES = ('Clone', 'Copy', 'PartialEq', 'Eq')


def split_clause(c):
    """'NAME: expr' -> (NAME, expr).  NAME is [A-Za-z0-9_.]+ ."""
    m = re.match(r'^\s*([A-Za-z][A-Za-z0-9_.\-]*)\s*:\s(.*)$', c, re.S)
    if not m:
        raise ValueError('contract clause without an obligation name: %r' % c[:60])
    return m.group(1), re.sub(r'\s*\n\s*', ' ', m.group(2).strip())


class Edits:
    def __init__(self):
        self.e = []      # (pos, del_len, text, order)

    def insert(self, pos, text, order=0):
        self.e.append((pos, 0, text, order))

    def delete(self, a, b):
        if b > a:
            self.e.append((a, b - a, '', 0))

    def replace(self, a, b, text):
        self.e.append((a, b - a, text, 0))

    def apply(self, text, lo, hi):
        # inserts at the same position keep (order, registration order)
        out = []
        cur = lo
        # at one position: pure insertions first (by their order), then replacements, the one that removes most first (an
        # enclosing abstraction wins over a token-level rename that starts at its first token)
        es = sorted(enumerate(self.e), key=lambda x: (x[1][0], (x[1][3] if x[1][1] == 0 else 10), -x[1][1], x[0]))
        # an edit that starts inside a region some pure deletion removes disappears with that region
        dels = [(p_, p_ + d_) for (_i, (p_, d_, i_, _o)) in es if d_ > 0 and i_ == '']
        def swallowed(idx, pos, dl, ins):
            for a, b in dels:
                if a == pos and dl == 0:
                    continue          # a pure insertion at the start of a deleted region stays
                if a <= pos < b and not (a == pos and b == pos + dl and ins == ''):
                    if (b - a) > dl or ins != '':
                        return True
            return False
        es = [x for x in es if not swallowed(x[0], x[1][0], x[1][1], x[1][2])]
        for _, (pos, dl, ins, _o) in es:
            if pos < lo or pos > hi:
                continue
            if pos < cur:
                # starts inside a region already deleted: its own text goes too
                if dl:
                    cur = max(cur, pos + dl)
                continue
            out.append(text[cur:pos])
            out.append(ins)
            cur = pos + dl
        out.append(text[cur:hi])
        return ''.join(out)


class Assembler:
    def __init__(self, unit_path, repo, canary=None):
        with open(unit_path, 'rb') as f:
            self.u = tomllib.load(f)
        self.unit_path = unit_path
        # [[include]] unit = "x": all items of unit x come first; its functions are used through the
        # contract proved there (body not re-verified here)
        inc_items = []
        for inc in self.u.get('include', []):
            with open(os.path.join(ROOT, 'contracts', inc['unit'] + '.toml'), 'rb') as f:
                other = tomllib.load(f)
            only = inc.get('only')
            for it in other.get('item', []):
                it = dict(it)
                if only is not None and it.get('path', it.get('in')) not in only:
                    continue
                if 'path' in it and re.search(r'(^|::)\s*fn \w+$', it['path']) and (it.get('ensures') or it.get('requires')) and not it.get('assumed'):
                    it = dict({k_: it[k_] for k_ in ('mut_self', 'mut_params') if k_ in it}, file=it['file'], path=it['path'], contract_from=inc['unit'])
                if inc.get('module'):
                    it['_module'] = inc['module']
                inc_items.append(it)
        if inc_items:
            self.u['item'] = inc_items + self.u.get('item', [])
        self.repo = repo
        self.canary = canary          # item index to append `ensures false` to
        self.srcs = {}
        self.fired = set()
        self.functions = []           # evidence: functions under contract
        self.assumed = []             # (path, sha) of real functions used through an assumed contract
        self.obligations = []         # names, in order
        self.proved_elsewhere = []    # callee contracts proved in another unit
        self.dropped_closure_contracts = []
        self.moot = []                # obligation names of dropped optional closure contracts
        self.in_assumed = False

    def src(self, rel):
        if rel not in self.srcs:
            p = os.path.join(self.repo, rel)
            if not os.path.exists(p):
                raise ExtractError('lost anchor: file %s does not exist' % rel)
            self.srcs[rel] = extract.load(p)
        return self.srcs[rel]

    # ---- generic clean-ups on an item's token range --------------------------------------
    def common_edits(self, s, item, ed, spec, in_trait_impl=False):
        lo, hi = item.start, item.end
        m = s.match()
        # doc comments
        for kind, a, b in s.all:
            if kind == 'doc' and lo <= a < hi:
                ed.delete(a, b)
                self.fired.add('5:drop-doc-comment')
        # attributes anywhere in the item
        k = item.k_first
        keep_derives = spec.get('derive', list(KEEP_DERIVES))
        while k <= item.k_last:
            if s.is_p(k, '#') and (s.is_p(k + 1, '[') or (s.is_p(k + 1, '!') and s.is_p(k + 2, '['))):
                ko = k + 1 if s.is_p(k + 1, '[') else k + 2
                kc = m[ko]
                a, b = s.t[k][1], s.t[kc][2]
                inner = s.text[s.t[ko][2]:s.t[kc][1]].strip()
                mm = re.match(r'^derive\s*\((.*)\)$', inner, re.S)
                if mm:
                    ds = [d.strip() for d in mm.group(1).split(',') if d.strip()]
                    kept = [d for d in ds if d.split('::')[-1] in keep_derives]
                    if kept != ds:
                        self.fired.add('5:filter-derives')
                    if kept:
                        ed.replace(a, b, '#[derive(%s)]' % ', '.join(kept))
                    else:
                        ed.delete(a, b)
                elif inner.startswith('verifier::') or inner.startswith('verus'):
                    pass
                else:
                    ed.delete(a, b)
                    self.fired.add('5:drop-attribute')
                k = kc + 1
                continue
            k += 1
        # visibility
        if not spec.get('keep_vis'):
            self.visibility(s, item, ed, in_trait_impl)

    def visibility(self, s, item, ed, in_trait_impl):
        m = s.match()

        def norm(k_from, k_kw):
            """tokens [k_from,k_kw) are qualifiers before a keyword/field name"""
            k = k_from
            if s.is_id(k, 'pub'):
                if s.is_p(k + 1, '('):
                    ed.replace(s.t[k][1], s.t[m[k + 1]][2], 'pub')
                    self.fired.add('6:visibility')
                return
            ed.insert(s.t[k][1], 'pub ')
            self.fired.add('6:visibility')

        # item-level
        k = item.k_first
        while s.is_p(k, '#'):
            k = m[k + 1 if s.is_p(k + 1, '[') else k + 2] + 1
        if item.kind in ('fn', 'struct', 'enum', 'const', 'static', 'type', 'union', 'trait') and not in_trait_impl:
            norm(k, item.k_kw)
        if item.kind == 'struct':
            br = item.body_range()
            if br:
                k = br[0] + 1
                start = True
                while k < br[1]:
                    if start:
                        while s.is_p(k, '#'):
                            k = m[k + 1] + 1
                        if k < br[1]:
                            norm(k, None)
                        start = False
                    if s.kind(k) == 'p':
                        c = s.s(k)
                        if c in '([{':
                            k = m[k] + 1
                            continue
                        if c == '<':
                            # skip generics so that a ',' inside them is not a field separator
                            d = 0
                            while k < br[1]:
                                if s.is_p(k, '<'):
                                    d += 1
                                elif s.is_p(k, '>'):
                                    d -= 1
                                    if d == 0:
                                        break
                                k += 1
                        if c == ',':
                            start = True
                    k += 1
            else:
                # tuple struct: struct X(A, B);
                k = item.k_kw + 2
                if s.is_p(k, '<'):
                    d = 0
                    while True:
                        if s.is_p(k, '<'):
                            d += 1
                        elif s.is_p(k, '>'):
                            d -= 1
                            if d == 0:
                                k += 1
                                break
                        k += 1
                if s.is_p(k, '('):
                    kc = m[k]
                    k += 1
                    start = True
                    while k < kc:
                        if start:
                            while s.is_p(k, '#'):
                                k = m[k + 1] + 1
                            norm(k, None)
                            start = False
                        if s.kind(k) == 'p':
                            c = s.s(k)
                            if c in '([{':
                                k = m[k] + 1
                                continue
                            if c == '<':
                                d = 0
                                while k < kc:
                                    if s.is_p(k, '<'):
                                        d += 1
                                    elif s.is_p(k, '>'):
                                        d -= 1
                                        if d == 0:
                                            break
                                    k += 1
                            if c == ',':
                                start = True
                        k += 1

    # ---- body transformations ---------------------------------------------------------------
    def body_edits(self, s, fp, ed):
        m = s.match()
        k = fp.k_body_open + 1
        end = fp.k_body_close
        counter = [0]
        # statements that start directly inside a `for` loop body: token index -> index of the loop's closing brace
        starts = {}

        def collect(kopen):
            # statement starts directly inside the block opened at kopen; then, if the block's LAST statement is an
            # `if` / `if let` chain that ends at the block's end, its branch blocks are in tail position of the loop body as
            # well (nothing follows them in the iteration), so a `continue` there is also "skip the rest of this block"
            kclose = m[kopen]
            q = kopen + 1
            at_start = True
            last = None
            while q < kclose:
                if at_start:
                    starts[q] = kclose
                    last = q
                    at_start = False
                if s.kind(q) == 'p':
                    c = s.s(q)
                    if c in '([{':
                        was_brace = (c == '{')
                        q = m[q]
                        if was_brace and not s.is_p(q + 1, ';') and not s.is_id(q + 1, 'else') and not s.is_p(q + 1, '.') and not s.is_p(q + 1, '?'):
                            at_start = True
                    elif c == ';':
                        at_start = True
                q += 1
            if last is not None and s.is_id(last, 'if'):
                blocks = []
                j = last
                while True:
                    j += 1
                    while j < kclose and not s.is_p(j, '{'):
                        if s.kind(j) == 'p' and s.s(j) in '([':
                            j = m[j]
                        j += 1
                    if j >= kclose:
                        return
                    blocks.append(j)
                    j = m[j]
                    if s.is_id(j + 1, 'else'):
                        j += 1
                        if s.is_id(j + 1, 'if'):
                            j += 1
                        continue
                    break
                if j + 1 == kclose:
                    for b in blocks:
                        collect(b)

        for (kw, kopen) in fp.loops():
            if not s.is_id(kw, 'for'):
                continue
            collect(kopen)
        if not hasattr(self, '_for_body_stmt_starts'):
            self._for_body_stmt_starts = {}
        self._for_body_stmt_starts[id(fp)] = starts
        while k < end:
            # 5c: a statement / block under `#[cfg(feature = "F")]` where F is listed in the unit's `cfg_off` (a cargo feature that is
            # off in the default build, e.g. statistics counters) is dropped with its attribute -- it is not compiled into the
            # node either; `#[cfg(not(feature = "F"))]` keeps its statement (the attribute alone is dropped)
            if s.is_p(k, '#') and s.is_p(k + 1, '[') and s.is_id(k + 2, 'cfg') and s.is_p(k + 3, '(') and s.is_id(k + 4, 'feature') and s.is_p(k + 5, '='):
                feat = s.s(k + 6).strip('"')
                kc_attr = m[k + 1]
                if feat in self.u.get('cfg_off', []) and s.is_p(k + 7, ')'):
                    j = kc_attr + 1
                    if s.is_p(j, '{'):
                        j2 = m[j]
                    else:
                        j2 = j
                        while j2 < end and not s.is_p(j2, ';'):
                            if s.kind(j2) == 'p' and s.s(j2) in '([{':
                                j2 = m[j2]
                            j2 += 1
                    ed.delete(s.t[k][1], s.t[j2][2])
                    self.fired.add('5c:drop-cfg-feature-off:' + feat)
                    k = j2 + 1
                    continue
            # if let Some(metrics) = ckb_metrics::handle() { ... }
            if s.is_id(k, 'if') and s.is_id(k + 1, 'let') and s.is_id(k + 2, 'Some'):
                j = k + 3
                txt = ''
                while j < end and not s.is_p(j, '{'):
                    txt += s.s(j)
                    j += 1
                if 'ckb_metrics::handle()' in txt and j < end:
                    kc = m[j]
                    if not s.is_id(kc + 1, 'else'):
                        ed.delete(s.t[k][1], s.t[kc][2])
                        self.fired.add('5:drop-metrics-block')
                        k = kc + 1
                        continue
            # 14: let-chain  `if let PAT = EXPR && COND { BODY }` (no else)  ->  `if let PAT = EXPR { if COND { BODY } }`
            # (Verus rejects let-chains; without an else branch the nesting is the language's own definition of the chain)
            # 24: a fixed-size array sub-pattern of identifiers inside an `if let` pattern (Verus: "slice patterns" unsupported):
            # `if let Some([a, b]) = E { B }` becomes `if let Some(verif_arrN) = E { let a = verif_arrN[0]; let b = verif_arrN[1]; B }`
            # (for a let-chain the `let`s go in front of the next conjunct) -- the meaning of the irrefutable array pattern
            arr_lets = {}
            if s.is_id(k, 'if') and s.is_id(k + 1, 'let'):
                q = k + 2
                while q < end and not s.is_p(q, '=') and not s.is_p(q, '{'):
                    if s.is_p(q, '['):
                        qc = m[q]
                        inner_ = [x for x in range(q + 1, qc)]
                        ids_ = [x for x in inner_ if s.is_id(x)]
                        seps_ = [x for x in inner_ if not s.is_id(x)]
                        if ids_ and all(s.is_p(x, ',') for x in seps_) and len(ids_) == len(seps_) + 1 or (ids_ and all(s.is_p(x, ',') for x in seps_) and len(ids_) == len(seps_)):
                            nm = 'verif_arr%d' % q
                            ed.replace(s.t[q][1], s.t[qc][2], nm)
                            arr_lets[k] = ' '.join('let %s = %s[%d];' % (s.s(x), nm, i_) for i_, x in enumerate(ids_))
                            self.fired.add('24:array-pattern-to-indexing')
                        q = qc
                    q += 1
            if s.is_id(k, 'if') and s.is_id(k + 1, 'let') and not s.is_id(k - 1, 'else'):
                j = k + 2
                d = 0
                k_ands = []
                while j < end:
                    if s.kind(j) == 'p':
                        c = s.s(j)
                        if c in '([':
                            j = m[j] + 1
                            continue
                        if c == '{':
                            break
                        if c == '&&':
                            k_ands.append(j)
                    j += 1
                if k_ands and j < end:
                    kc = m[j]
                    if s.is_id(kc + 1, 'else'):
                        raise ExtractError('unsupported construct: let-chain with an else branch in fn %s' % fp.item.name)
                    # every top-level `&&` of the chain opens one more nested `if` (a conjunct that starts with `let` becomes an
                    # `if let`); a `let` scrutinee cannot itself contain a top-level `&&`, so the split is the language's own
                    for i_and, k_and in enumerate(k_ands):
                        ed.replace(s.t[k_and][1], s.t[k_and][2], '{ ' + (arr_lets.pop(k, '') + ' ' if i_and == 0 else '') + 'if')
                    ed.insert(s.t[kc][2], ' }' * len(k_ands))
                    self.fired.add('14:let-chain-to-nested-if')
                if k in arr_lets and j < end and s.is_p(j, '{'):
                    ed.insert(s.t[j][2], ' ' + arr_lets.pop(k) + ' ')
            # 16: `if COND { continue; }` as a statement directly inside a for-loop body (Verus: "for-loops do not yet support
            # continue")  ->  `if COND { } else { <rest of the loop body> }`
            if s.is_id(k, 'if') and not s.is_id(k - 1, 'else') and k in getattr(self, '_for_body_stmt_starts', {}).get(id(fp), {}):
                j = k + 1
                while j < end and not s.is_p(j, '{'):
                    if s.kind(j) == 'p' and s.s(j) in '([':
                        j = m[j]
                    j += 1
                if j < end:
                    kc = m[j]
                    inner = [q for q in range(j + 1, kc)]
                    # statement-level logging macros inside the block are dropped anyway (5): they do not count
                    q_ = j + 1
                    skip_ = set()
                    while q_ < kc:
                        if s.is_id(q_) and s.s(q_) in LOG_MACROS and s.is_p(q_ + 1, '!') and s.kind(q_ + 2) == 'p' and s.s(q_ + 2) in '([{':
                            qe_ = m[q_ + 2]
                            if s.is_p(qe_ + 1, ';'):
                                qe_ += 1
                            skip_.update(range(q_, qe_ + 1))
                            q_ = qe_ + 1
                            continue
                        q_ += 1
                    inner = [q for q in inner if q not in skip_]
                    if len(inner) >= 2 and s.is_id(inner[-2], 'continue') and s.is_p(inner[-1], ';') and not s.is_id(kc + 1, 'else') \
                            and (len(inner) == 2 or (s.kind(inner[-3]) == 'p' and s.s(inner[-3]) in (';', '}'))):
                        # (also `if COND { A; continue; }`: the `continue` is the block's last statement, so `A` stays in the
                        # then-branch and the rest of the loop body becomes the else-branch)
                        loop_close = self._for_body_stmt_starts[id(fp)][k]
                        ed.delete(s.t[inner[-2]][1], s.t[inner[-1]][2])
                        ed.insert(s.t[kc][2], ' else {')
                        ed.insert(s.t[loop_close][1], '} ')
                        self.fired.add('16:continue-to-else-branch')
            # if log_enabled!(..) { .. }   (logging only)
            if s.is_id(k, 'if') and s.is_id(k + 1, 'log_enabled') and s.is_p(k + 2, '!') and s.is_p(k + 3, '('):
                kb_ = m[k + 3] + 1
                if s.is_p(kb_, '{') and not s.is_id(m[kb_] + 1, 'else'):
                    ed.delete(s.t[k][1], s.t[m[kb_]][2])
                    self.fired.add('5:drop-log_enabled-block')
                    k = m[kb_] + 1
                    continue
            if s.is_id(k) and s.is_p(k + 1, '!') and k + 2 < end and s.kind(k + 2) == 'p' and s.s(k + 2) in '([{':
                name = s.s(k)
                k0 = k
                while s.is_p(k0 - 1, '::') and s.is_id(k0 - 2):
                    k0 -= 2
                kc = m[k + 2]
                prev = s.s(k0 - 1) if k0 > 0 else '{'
                stmt_pos = prev in (';', '{', '}') and s.kind(k0 - 1) == 'p'
                if name in LOG_MACROS or name in self.u.get('drop_macros', []):
                    if stmt_pos:
                        b = s.t[kc][2]
                        if s.is_p(kc + 1, ';'):
                            b = s.t[kc + 1][2]
                        ed.delete(s.t[k0][1], b)
                    else:
                        ed.replace(s.t[k0][1], s.t[kc][2], '()')
                    self.fired.add('5:drop-log-macro:' + name)
                    k = kc + 1
                    continue
                if name == 'format' and self.u.get('opaque_format'):
                    # transformation 8: a format! Verus cannot digest (alternate / Display of opaque types) becomes an
                    # opaque String; contracts never mention string contents
                    ed.replace(s.t[k0][1], s.t[kc][2], 'verif_opaque_string()')
                    self.fired.add('8:format!-to-opaque-string')
                    k = kc + 1
                    continue
                if name in ASSERT_MACROS and stmt_pos:
                    args = self.split_args(s, k + 2, kc)
                    counter[0] += 1
                    n = counter[0]
                    if name == 'assert':
                        rep = 'let __c%d: bool = %s; assert(__c%d);' % (n, args[0], n)
                    else:
                        op = '==' if name == 'assert_eq' else '!='
                        rep = 'let __l%d = %s; let __r%d = %s; assert(__l%d %s __r%d);' % (n, args[0], n, args[1], n, op, n)
                    b = s.t[kc][2]
                    if s.is_p(kc + 1, ';'):
                        b = s.t[kc + 1][2]
                    ed.replace(s.t[k0][1], b, rep)
                    self.fired.add('7:assert-to-proof-obligation')
                    k = kc + 1
                    continue
            k += 1
        # 12: call-path rename (closed per-unit list; error constructors / foreign-crate paths only)
        for frm, to in self.u.get('rename', []):
            want = [x for x in extract._tok_strings(frm)]
            k = fp.k_body_open + 1
            while k + len(want) <= end:
                if all(s.s(k + q) == want[q] for q in range(len(want))) and not s.is_p(k - 1, '::') and not s.is_p(k - 1, '.'):
                    ed.replace(s.t[k][1], s.t[k + len(want) - 1][2], to)
                    self.fired.add('12:rename %s -> %s' % (frm, to))
                    k += len(want)
                    continue
                k += 1
        # |_| closure params
        for (ka, kb) in fp.closures():
            for q in range(ka + 1, kb):
                if s.is_id(q, '_') and (s.is_p(q - 1, '|') or s.is_p(q - 1, ',')) and (s.is_p(q + 1, '|') or s.is_p(q + 1, ',') or s.is_p(q + 1, ':')):
                    ed.replace(s.t[q][1], s.t[q][2], '_e%d' % q)
                    self.fired.add('8:name-wildcard-closure-param')

    def split_args(self, s, k_open, k_close):
        m = s.match()
        args, cur, k = [], k_open + 1, k_open + 1
        while k < k_close:
            if s.kind(k) == 'p':
                c = s.s(k)
                if c in '([{':
                    k = m[k] + 1
                    continue
                if c == ',':
                    args.append(s.text[s.t[cur][1]:s.t[k - 1][2]])
                    cur = k + 1
            k += 1
        if cur < k_close:
            args.append(s.text[s.t[cur][1]:s.t[k_close - 1][2]])
        return args

    # ---- clauses --------------------------------------------------------------------------------
    def clauses(self, kw, lst, indent, fnname):
        if not lst:
            return ''
        out = ['%s%s' % (indent, kw)]
        for c in lst:
            name, expr = split_clause(c)
            if self.in_assumed:
                out.append('%s    %s, // @assumed %s' % (indent, expr, name))
                continue
            self.obligations.append({'name': name, 'kind': kw, 'function': fnname, 'text': expr})
            out.append('%s    %s, // @ob %s' % (indent, expr, name))
        return '\n'.join(out) + '\n'

    def fn_contract(self, s, fp, ed, spec, fnname, is_canary, indent='    '):
        res = spec.get('result')
        if res:
            rr = fp.ret_type_range()
            if rr is None:
                raise ExtractError('lost anchor: fn %s has no return type to name' % fnname)
            a, b = rr
            ty = s.text[a:b].strip()
            ed.replace(a, b, ' (%s: %s)' % (res, ty))
        txt = ''
        txt += self.clauses('requires', spec.get('requires'), indent, fnname)
        ens = list(spec.get('ensures', []))
        txt += self.clauses('ensures', ens, indent, fnname)
        if is_canary:
            if ens:
                txt += '%s    false, // @canary\n' % indent
            else:
                txt += '%sensures\n%s    false, // @canary\n' % (indent, indent)
        if spec.get('decreases'):
            txt += '%sdecreases %s\n' % (indent, spec['decreases'])
        if txt:
            self.fired.add('1:contract-splice')
            pos = s.t[fp.k_body_open][1]
            ed.insert(pos, '\n' + txt + indent[:-4], order=-1)

    def lift_closure(self, s, item, ed, spec, fnname, is_canary):
        # 18: closure lifting -- the k-th closure of the function is emitted INSTEAD of the function, as a function of its own:
        # the unit gives the signature (closure parameters first, then the captured variables, each by reference or by copy);
        # the body is the closure's body text, token for token, with the edits that apply inside it (nested closure contracts,
        # proof splices, abstractions).  What is proved is a contract of the closure body for all parameter and capture values;
        # that the enclosing function calls the closure as its combinator chain says is not part of the proof.
        lf = spec['lift']
        fp = FnParts(item)
        closures = fp.closures()
        if lf['k'] >= len(closures):
            raise ExtractError('lost anchor: closure %d of fn %s (has %d)' % (lf['k'], fnname, len(closures)))
        ka, kb = closures[lf['k']]
        pnames, d_, in_type, tdepth = [], 0, False, 0
        for k in range(ka + 1, kb):
            c = s.s(k)
            if s.kind(k) == 'p':
                if c in '([<':
                    d_ += 1
                elif c in ')]>':
                    d_ -= 1
                elif c == ':' and not in_type:
                    in_type, tdepth = True, d_
                elif c == ',' and in_type and d_ == tdepth:
                    in_type = False
            elif s.is_id(k) and not in_type and c not in ('mut', 'ref'):
                pnames.append(c)
        def subst(x):
            for i_, n_ in enumerate(pnames):
                x = x.replace('$%d' % i_, n_)
            if re.search(r'\$\d', x):
                raise ExtractError('lost anchor: lifted closure %d of fn %s has %d parameter name(s)' % (lf['k'], fnname, len(pnames)))
            return x
        m = s.match()
        kbody = kb + 1
        if s.is_p(kbody, '->'):
            while not s.is_p(kbody, '{'):
                kbody += 1
        if lf.get('self_as') or lf.get('deref'):
            # as in loop-body lifting (23): `self` of the enclosing method becomes the named parameter, and a captured local that
            # the closure ASSIGNS is passed as `&mut` and read / written through `(*name)`
            kend = m[kbody] if s.is_p(kbody, '{') else fp.k_body_close
            for q in range(kbody, kend):
                if s.is_id(q, 'self') and lf.get('self_as'):
                    ed.replace(s.t[q][1], s.t[q][2], lf['self_as'])
                if s.is_id(q) and s.s(q) in lf.get('deref', []) and not s.is_p(q - 1, '.') and not (s.is_p(q + 1, ':') and not s.is_p(q + 1, '::')):
                    ed.replace(s.t[q][1], s.t[q][2], '(*%s)' % s.s(q))
        if s.is_p(kbody, '{'):
            a, b = s.t[kbody][1], s.t[m[kbody]][2]
            body = ed.apply(s.text, a, b)
        else:
            # expression body: runs to the `,` or `)` that closes the argument
            j = kbody
            while j < fp.k_body_close:
                if s.kind(j) == 'p':
                    c = s.s(j)
                    if c in '([{':
                        j = m[j] + 1
                        continue
                    if c in ')]},;':
                        break
                j += 1
            body = '{ ' + ed.apply(s.text, s.t[kbody][1], s.t[j - 1][2]) + ' }'
        res = spec.get('result')
        ret = lf['ret']
        head = 'pub fn %s%s(%s) -> %s\n' % (lf['name'], lf.get('generics', ''), subst(lf['params']), ('(%s: %s)' % (res, ret)) if res else ret)
        txt = self.clauses('requires', [subst(x) for x in spec.get('requires', [])], '    ', fnname)
        ens = [subst(x) for x in spec.get('ensures', [])]
        txt += self.clauses('ensures', ens, '    ', fnname)
        if is_canary:
            txt += ('    ensures\n' if not ens else '') + '        false, // @canary\n'
        self.fired.add('18:closure-lifting')
        return head + txt + body


    def lift_loop(self, s, item, ed, spec, fnname, is_canary):
        # 23: loop-body lifting -- the body of the k-th loop of the function is emitted INSTEAD of the function, as a function of
        # its own: the unit gives the signature (the loop's pattern variables first, then the variables of the enclosing
        # function the body uses; a variable the body ASSIGNS is passed as `&mut` and listed under `deref`, and every occurrence
        # of its name inside the body becomes `(*name)` -- the meaning of a loop body's access to an enclosing mutable local).
        # `continue;` directly in this loop (not in a nested loop) ends the iteration: it becomes `return <tail>;`, and `<tail>`
        # is appended as the body's value (`tail = "Ok(())"` for a body that uses `?`).  A `break` is an unsupported construct.
        # What is proved is a contract of ONE iteration for all values of the loop variables and captured state; that the loop
        # runs the body for every element its iterator yields, in order, is not part of the proof and is stated as such.
        lf = spec['lift_loop']
        fp = FnParts(item)
        loops = fp.loops()
        m = s.match()
        is_block = 'block_after' in lf or 'let_init' in lf
        if 'let_init' in lf:
            # 23c: the initializer expression of `let NAME = <expr>;` is lifted as a function returning its value
            k0_, k1_ = fp.find_stmt('let %s' % lf['let_init'], lf.get('n', 0))
            k1_ += 1
            d__ = 0
            while k1_ < fp.k_body_close and not (d__ == 0 and s.is_p(k1_, '=')):
                if s.kind(k1_) == 'p' and s.s(k1_) in '<([':
                    d__ += 1
                elif s.kind(k1_) == 'p' and s.s(k1_) in '>)]':
                    d__ -= 1
                k1_ += 1
            ka_ = k1_ + 1
            kb_ = fp.stmt_end(ka_) - 1
            if kb_ < ka_:
                raise ExtractError('lost anchor: initializer of `let %s` in fn %s' % (lf['let_init'], fnname))
            for q in range(ka_, kb_ + 1):
                if s.is_id(q, 'self') and lf.get('self_as'):
                    ed.replace(s.t[q][1], s.t[q][2], lf['self_as'])
                if (s.is_id(q, 'continue') or s.is_id(q, 'break') or s.is_id(q, 'return')):
                    raise ExtractError('unsupported construct: control transfer inside the lifted initializer of `let %s` in fn %s' % (lf['let_init'], fnname))
            body = ed.apply(s.text, s.t[ka_][1], s.t[kb_][2])
            res = spec.get('result')
            head = ''.join(a_ + '\n' for a_ in spec.get('attrs', [])) + 'pub fn %s%s(%s) -> %s\n' % (lf['name'], lf.get('generics', ''), lf['params'], ('(%s: %s)' % (res, lf['ret'])) if res else lf['ret'])
            txt = self.clauses('requires', spec.get('requires', []), '    ', fnname)
            ens = list(spec.get('ensures', []))
            txt += self.clauses('ensures', ens, '    ', fnname)
            if is_canary:
                txt += ('    ensures\n' if not ens else '') + '        false, // @canary\n'
            self.fired.add('23c:let-initializer-lifting')
            return head + txt + '{ ' + body + ' }'
        if is_block:
            # 23b: the `{ .. }` block that follows an anchor (e.g. the then-branch of `if COND`) is lifted the same way; its own
            # tail expression / `return`s give the function's value, so no tail is appended; a `continue` / `break` that belongs
            # to an enclosing loop is an unsupported construct
            _ka, kb_ = fp.find_stmt(lf['block_after'], lf.get('n', 0))
            kopen = kb_ + 1
            while kopen < fp.k_body_close and not s.is_p(kopen, '{'):
                kopen += 1
            if kopen >= fp.k_body_close:
                raise ExtractError('lost anchor: no block after `%s` in fn %s' % (lf['block_after'], fnname))
            if lf.get('else_branch'):
                # the `else { .. }` block of the `if` named by the anchor
                kc_ = m[kopen]
                if not (s.is_id(kc_ + 1, 'else') and s.is_p(kc_ + 2, '{')):
                    raise ExtractError('lost anchor: no else block after `%s` in fn %s' % (lf['block_after'], fnname))
                kopen = kc_ + 2
            kw = kopen
            lf = dict(lf, k=-1)
        else:
            if lf['k'] >= len(loops):
                raise ExtractError('lost anchor: loop %d of fn %s (has %d)' % (lf['k'], fnname, len(loops)))
            kw, kopen = loops[lf['k']]
        kclose = m[kopen]
        if lf.get('head'):
            # the loop header must still read as the unit expects (pattern and iterated expression), token for token
            want = extract._tok_strings(lf['head'])
            got = [s.s(q) for q in range(kw, kopen)]
            if want != got:
                raise ExtractError('lost anchor: header of loop %d of fn %s changed' % (lf['k'], fnname))
        nested = [(a, m[b]) for (a, b) in loops if a > kopen and m[b] < kclose]
        def in_nested(q):
            return any(a <= q <= b for a, b in nested)
        tail = lf.get('tail', '()')
        self.fired.add('23b:block-lifting' if is_block else '23:loop-body-lifting')
        for q in range(kopen + 1, kclose):
            if s.is_id(q, 'break') and not in_nested(q):
                raise ExtractError('unsupported construct: break inside the lifted loop %d of fn %s' % (lf['k'], fnname))
            if s.is_id(q, 'continue') and not in_nested(q):
                if is_block:
                    raise ExtractError('unsupported construct: continue of an enclosing loop inside the lifted block of fn %s' % fnname)
                ed.replace(s.t[q][1], s.t[q][2], 'return %s' % tail)
            if s.is_id(q, 'self') and lf.get('self_as'):
                ed.replace(s.t[q][1], s.t[q][2], lf['self_as'])
            if s.is_id(q) and s.s(q) in lf.get('deref', []) and not s.is_p(q - 1, '.') and not (s.is_p(q + 1, ':') and not s.is_p(q + 1, '::')):
                ed.replace(s.t[q][1], s.t[q][2], '(*%s)' % s.s(q))
        body = ed.apply(s.text, s.t[kopen][2], s.t[kclose][1])
        res = spec.get('result')
        ret = lf['ret']
        head = ''.join(a_ + '\n' for a_ in spec.get('attrs', [])) + 'pub fn %s%s(%s) -> %s\n' % (lf['name'], lf.get('generics', ''), lf['params'], ('(%s: %s)' % (res, ret)) if res else ret)
        if lf.get('where'):
            head = head.rstrip('\n') + '\n    where %s\n' % lf['where']
        txt = self.clauses('requires', spec.get('requires', []), '    ', fnname)
        ens = list(spec.get('ensures', []))
        txt += self.clauses('ensures', ens, '    ', fnname)
        if is_canary:
            txt += ('    ensures\n' if not ens else '') + '        false, // @canary\n'
        return head + txt + '{' + body + ('' if (is_block and not lf.get('append_tail')) else '\n    ' + tail) + '\n}'

    def mut_refs(self, s, fp, ed, spec, fnname):
        # ghost-journal parameter: `journal_param = true` adds `, verif_journal: &mut VJournal` to the signature, so that the
        # function's ensures clauses can speak about the journal at EVERY exit (early returns, `?`); the stand-ins of the
        # journalled calls (transformation 15) are written with `&mut verif_journal` and get `&mut *verif_journal` here
        if spec.get('journal_param'):
            kp = fp.k_pclose
            sep = '' if s.is_p(kp - 1, ',') or s.is_p(kp - 1, '(') else ', '
            ed.insert(s.t[kp][1], sep + 'verif_journal: &mut VJournal')
            self.fired.add('15j:ghost-journal-parameter')
        # 19: interior-mutable receiver / parameter as `&mut`: a type whose methods mutate through `&self` (a RocksDB
        # transaction handle) gives Verus no way to say that a call changed it.  `mut_self = true` rewrites the receiver
        # `&self` to `&mut self`, `mut_params = ["txn"]` rewrites `txn: &T` to `txn: &mut T`; nothing else changes, and rustc's
        # borrow checker (inside Verus) rejects the text if the body ever holds two of these borrows at once.
        if spec.get('mut_self'):
            k = fp.k_popen + 1
            if s.is_p(k, '&') and s.is_id(k + 1, 'self'):
                ed.insert(s.t[k][2], 'mut ')
                self.fired.add('19:interior-mutable-as-mut-ref')
            elif not (s.is_p(k, '&') and s.is_id(k + 1, 'mut')):
                raise ExtractError('lost anchor: fn %s has no `&self` receiver' % fnname)
        for pn in spec.get('mut_params', []):
            found = False
            for k in range(fp.k_popen + 1, fp.k_pclose):
                if s.is_id(k, pn) and s.is_p(k + 1, ':') and s.is_p(k + 2, '&') and (s.is_p(k - 1, '(') or s.is_p(k - 1, ',')):
                    if not s.is_id(k + 3, 'mut'):
                        ed.insert(s.t[k + 2][2], 'mut ')
                    found = True
                    self.fired.add('19:interior-mutable-as-mut-ref')
            if not found:
                raise ExtractError('lost anchor: fn %s has no reference parameter %s' % (fnname, pn))

    def fn_edits(self, s, item, ed, spec, fnname, is_canary):
        fp = FnParts(item)
        if fp.k_body_open is None:
            # trait method declaration: contract goes before the terminating ';'
            res = spec.get('result')
            if res:
                a, b = fp.ret_type_range()
                ed.replace(a, b, ' (%s: %s)' % (res, s.text[a:b].strip()))
            txt = self.clauses('requires', spec.get('requires'), '    ', fnname) + self.clauses('ensures', spec.get('ensures'), '    ', fnname)
            if txt:
                ed.insert(s.t[item.k_last][1], '\n' + txt.rstrip().rstrip(',') + '\n', order=-1)
                self.fired.add('1:contract-splice')
            return
        if spec.get('assumed'):
            # body replaced, contract assumed, text hash pinned
            body_a, body_b = s.t[fp.k_body_open][1], s.t[fp.k_body_close][2]
            self.assumed.append({'function': fnname, 'sha256': hashlib.sha256(item.text().encode()).hexdigest(),
                                 'proved_in': spec.get('contract_from') or spec.get('proved_in')})
            self.in_assumed = True
            self.fn_contract(s, fp, ed, spec, fnname, False)
            self.in_assumed = False
            self.mut_refs(s, fp, ed, spec, fnname)
            # a `mut` binding on a by-value parameter is invisible to callers; Verus rejects `mut self`, so it is dropped
            # from the signature of a function whose body is not verified here
            for k in range(fp.k_popen + 1, fp.k_pclose):
                if s.is_id(k, 'mut') and (s.is_p(k - 1, '(') or s.is_p(k - 1, ',')) and s.is_id(k + 1):
                    ed.delete(s.t[k][1], s.t[k + 1][1])
                    self.fired.add('6b:drop-mut-binding-in-assumed-signature')
            for k in range(item.k_first, fp.k_popen):
                if s.is_id(k, 'async'):
                    ed.delete(s.t[k][1], s.t[k + 1][1])
                    self.fired.add('21:async-fn-as-sequential-fn')
            ed.replace(body_a + 1, body_b - 1, ' unimplemented!() ')
            ed.insert(item.start, '#[verifier::external_body]\n', order=-2)
            self.fired.add('11:assumed-contract(external_body)')
            return
        if not spec.get('lift') and not spec.get('lift_loop'):
            self.fn_contract(s, fp, ed, spec, fnname, is_canary)
        # 17: a `mut self` receiver (Verus: "does not yet support mut self"): `fn f(mut self, ..) { B }` becomes
        # `fn f(self, ..) { let mut verif_self = self; B' }` where B' is B with every `self` token renamed to `verif_self`;
        # contract clauses keep naming the parameter `self` (the value the caller passed)
        if s.is_id(fp.k_popen + 1, 'mut') and s.is_id(fp.k_popen + 2, 'self'):
            ed.delete(s.t[fp.k_popen + 1][1], s.t[fp.k_popen + 2][1])
            ed.insert(s.t[fp.k_body_open][2], ' let mut verif_self = self; ', order=-1)
            for k in range(fp.k_body_open + 1, fp.k_body_close):
                if s.is_id(k, 'self'):
                    ed.replace(s.t[k][1], s.t[k][2], 'verif_self')
            self.fired.add('17:mut-self-receiver')
        self.mut_refs(s, fp, ed, spec, fnname)
        # 21: `async fn` as the sequential function it denotes (unit option `strip_async = true` on the item; Verus: "async
        # is not supported"): the `async` qualifier is deleted from the signature and every postfix `.await` from the body.
        # What this DROPS: the suspension points -- the proof is about the value the future resolves to when it is driven to
        # completion without interference at the awaits (lock acquisitions `x.write().await` become plain calls with an
        # assumed contract); interleavings with other tasks at those points are not modelled and are listed as not decided.
        # An `async` block or `async move` closure inside the body is NOT handled (unsupported construct, exit 2).
        if spec.get('strip_async'):
            hit = False
            for k in range(item.k_first, fp.k_popen):
                if s.is_id(k, 'async'):
                    ed.delete(s.t[k][1], s.t[k + 1][1])
                    hit = True
            if not hit:
                raise ExtractError('lost anchor: fn %s is not an async fn' % fnname)
            for k in range(fp.k_body_open + 1, fp.k_body_close):
                if s.is_id(k, 'async'):
                    raise ExtractError('unsupported construct: async block inside fn %s' % fnname)
                if s.is_id(k, 'await') and s.is_p(k - 1, '.'):
                    ed.delete(s.t[k - 1][1], s.t[k][2])
            self.fired.add('21:async-fn-as-sequential-fn')
        # 22: eta-expansion of a tuple-variant constructor used as a function value (Verus: "does not yet support using a
        # datatype constructor as a function value"): `.map_err(Reject::Verification)` becomes
        # `.map_err(|verif_x: Error| -> (verif_o: Reject) ensures verif_o == Reject::Verification(verif_x) { Reject::Verification(verif_x) })`
        # -- the language's own meaning of the constructor as a function, with the closure's strongest postcondition; the unit
        # names the constructor path and the two types (`[[item.eta]] path = .. arg = .. ty = ..`), rustc checks them
        for et in spec.get('eta', []):
            want = extract._tok_strings(et['path'])
            hit = False
            for k in range(fp.k_body_open + 1, fp.k_body_close - len(want)):
                if all(s.s(k + q) == want[q] for q in range(len(want))) and (s.is_p(k - 1, '(') or s.is_p(k - 1, ',')) \
                        and (s.is_p(k + len(want), ')') or s.is_p(k + len(want), ',')):
                    ed.replace(s.t[k][1], s.t[k + len(want) - 1][2],
                               '|verif_x: %s| -> (verif_o: %s) ensures verif_o == %s(verif_x) { %s(verif_x) }' % (et['arg'], et['ty'], et['path'], et['path']))
                    hit = True
            if hit:
                self.fired.add('22:eta-expand-constructor-as-function')
        self.body_edits(s, fp, ed)
        loops = fp.loops()
        if spec.get('lift'):
            # `$0`, `$1`, .. in the loop clauses and proof texts of a lifted closure stand for the closure's parameter names
            cls_ = fp.closures()
            if spec['lift']['k'] < len(cls_):
                ka_, kb_ = cls_[spec['lift']['k']]
                pn_, d__, in_t, td_ = [], 0, False, 0
                for k_ in range(ka_ + 1, kb_):
                    c_ = s.s(k_)
                    if s.kind(k_) == 'p':
                        if c_ in '([<':
                            d__ += 1
                        elif c_ in ')]>':
                            d__ -= 1
                        elif c_ == ':' and not in_t:
                            in_t, td_ = True, d__
                        elif c_ == ',' and in_t and d__ == td_:
                            in_t = False
                    elif s.is_id(k_) and not in_t and c_ not in ('mut', 'ref'):
                        pn_.append(c_)
                def sub_(x):
                    for i_, n_ in enumerate(pn_):
                        x = x.replace('$%d' % i_, n_)
                    return x
                spec = dict(spec)
                spec['loop'] = [dict(lp_, **{kk: [sub_(c) for c in lp_.get(kk, [])] for kk in ('invariant', 'invariant_except_break', 'ensures') if kk in lp_}) for lp_ in spec.get('loop', [])]
                spec['proof'] = [dict(pr_, **{kk: sub_(pr_[kk]) for kk in ('text', 'assert') if kk in pr_}) for pr_ in spec.get('proof', [])]
        for lp in spec.get('loop', []):
            if 'head' in lp:
                # the loop named by its HEADER text (keyword up to the opening brace, token for token) instead of its ordinal:
                # deleting or adding other loops does not shift it.  `optional = true`: when no loop reads like that any more
                # the loop contract is moot and dropped (recorded) -- the function's own postconditions judge what the code
                # does instead
                want_ = extract._tok_strings(lp['head'])
                hits_ = [i_ for i_, (kw_, ko_) in enumerate(loops) if [s.s(q) for q in range(kw_, ko_)] == want_]
                if lp.get('body_has'):
                    # .. and whose BODY contains the given text (tells apart two loops with the same header)
                    wb_ = extract._tok_strings(lp['body_has'])
                    mm2_ = s.match()
                    def has_(i_):
                        ko_ = loops[i_][1]
                        body_ = [s.s(q) for q in range(ko_ + 1, mm2_[ko_])]
                        return any(body_[a_:a_ + len(wb_)] == wb_ for a_ in range(len(body_) - len(wb_) + 1))
                    hits_ = [i_ for i_ in hits_ if has_(i_)]
                if lp.get('n', 0) >= len(hits_):
                    hits_ = []
                if not hits_ and len(loops) >= len(spec.get('loop', [])):
                    # no loop reads like that, but the function still has as many loops as it has loop contracts: the HEADER
                    # changed (a renamed loop variable, `for` turned into `while let`, ..), no loop was deleted.  The contract
                    # goes to the loop at its ordinal position, as before headers were used: a harmless rename then still verifies
                    # or stops at a name that no longer exists (undecided) -- it must not become a violation by losing its
                    # invariant
                    pos_ = [i2_ for i2_, l2_ in enumerate(spec.get('loop', [])) if l2_ is lp or l2_ == lp]
                    if pos_ and pos_[0] < len(loops):
                        hits_ = [pos_[0]]
                        lp = dict(lp, n=0)
                if not hits_:
                    if lp.get('optional'):
                        self.dropped_closure_contracts.append('%s: loop contract for `%s` (no such loop)' % (fnname, lp['head']))
                        for kk_ in ('invariant', 'invariant_except_break', 'ensures'):
                            for x_ in lp.get(kk_, []) or []:
                                self.moot.append(split_clause(x_)[0])
                        continue
                    raise ExtractError('lost anchor: no loop of fn %s reads `%s`' % (fnname, lp['head']))
                lp = dict(lp, k=hits_[lp.get('n', 0)])
            if lp.get('name'):
                self._loop_names = getattr(self, '_loop_names', {})
                self._loop_names[(id(fp), lp['name'])] = lp['k']
            kidx = lp['k']
            if kidx >= len(loops):
                raise ExtractError('lost anchor: loop %d of fn %s (has %d loops)' % (kidx, fnname, len(loops)))
            _kw, kopen = loops[kidx]
            txt = ''
            txt += self.clauses('invariant_except_break', lp.get('invariant_except_break'), '            ', fnname)
            txt += self.clauses('invariant', lp.get('invariant'), '            ', fnname)
            txt += self.clauses('ensures', lp.get('ensures'), '            ', fnname)
            if lp.get('decreases'):
                txt += '            decreases %s\n' % lp['decreases']
            if lp.get('iter'):
                # for-loop ghost iterator name:  `for x in EXPR` -> `for x in <iter>: EXPR`  (ghost name only)
                kk = _kw + 1
                while kk < kopen and not s.is_id(kk, 'in'):
                    kk += 1
                if kk >= kopen:
                    raise ExtractError('lost anchor: loop %d of fn %s is not a for-loop' % (kidx, fnname))
                ed.insert(s.t[kk][2], ' %s:' % lp['iter'])
                self.fired.add('2b:name-for-loop-ghost-iterator')
            ed.insert(s.t[kopen][1], '\n' + txt + '        ', order=-1)
            self.fired.add('2:loop-splice')
        closures = fp.closures()
        for cl in spec.get('closure', []):
            kidx = cl.get('k', 0)
            cands = closures
            if 'after' in cl:
                # the k-th closure that starts after a landmark (e.g. the constructor call whose result the closure
                # post-processes): ordinals are then local to the landmark, so deleting closures elsewhere does not shift them.
                # `optional = true`: if the landmark itself is gone, the contract is moot and is dropped (recorded); whatever
                # the code does instead is judged by the enclosing function's own postconditions
                try:
                    _k0, k1 = fp.find_stmt(cl['after'], cl.get('n', 0))
                except ExtractError:
                    if cl.get('optional'):
                        self.dropped_closure_contracts.append('%s: closure contract after `%s` (landmark absent)' % (fnname, cl['after']))
                        for x_ in list(cl.get('requires', [])) + list(cl.get('ensures', [])):
                            self.moot.append(split_clause(x_)[0])
                        continue
                    raise
                cands = [c for c in closures if c[0] > k1]
            if 'containing' in cl:
                # the closure whose BODY contains the given text (the innermost one): a contract tied to what the closure does,
                # not to where it stands; `optional = true` drops it (moot) when no closure contains the text any more
                kxs = []
                n_ = 0
                while True:
                    try:
                        kx_, _ky = fp.find_stmt(cl['containing'], n_)
                    except ExtractError:
                        break
                    kxs.append(kx_)
                    n_ += 1
                def c_end(c):
                    kq = c[1] + 1
                    mm_ = s.match()
                    if s.is_p(kq, '->'):
                        while not s.is_p(kq, '{'):
                            kq += 1
                    if s.is_p(kq, '{'):
                        return mm_[kq]
                    j_ = kq
                    while j_ < fp.k_body_close:
                        if s.kind(j_) == 'p':
                            cc_ = s.s(j_)
                            if cc_ in '([{':
                                j_ = mm_[j_] + 1
                                continue
                            if cc_ in ')]},;':
                                break
                        j_ += 1
                    return j_ - 1
                inner = [c for c in closures if any(c[1] < kx <= c_end(c) for kx in kxs)]
                if not inner and len(closures) >= len(spec.get('closure', [])):
                    # no closure contains the text, but no closure was deleted either: its content changed (a rename ..).  The
                    # contract goes to the closure at its ordinal position, so that a harmless rename is undecided or still
                    # verifies instead of losing its contract and failing the enclosing postcondition
                    pos_ = [i2_ for i2_, c2_ in enumerate(spec.get('closure', [])) if c2_ is cl or c2_ == cl]
                    if pos_ and pos_[0] < len(closures):
                        inner = [closures[pos_[0]]]
                if not inner:
                    if cl.get('optional'):
                        self.dropped_closure_contracts.append('%s: closure contract for the closure containing `%s` (no such closure)' % (fnname, cl['containing']))
                        for x_ in list(cl.get('requires', [])) + list(cl.get('ensures', [])):
                            self.moot.append(split_clause(x_)[0])
                        continue
                    raise ExtractError('lost anchor: no closure of fn %s contains `%s`' % (fnname, cl['containing']))
                cands = [max(inner, key=lambda c: c[0])]
                kidx = 0
            if kidx >= len(cands):
                raise ExtractError('lost anchor: closure %d of fn %s (has %d)' % (kidx, fnname, len(cands)))
            ka, kb = cands[kidx]
            txt = ' -> (%s)' % cl['ret'] if cl.get('ret') else ''
            # `$0`, `$1`, .. in a closure contract stand for the closure's parameter names (robust to renames)
            pnames, d, want = [], 0, True
            for kk2 in range(ka + 1, kb):
                c = s.s(kk2)
                if s.kind(kk2) == 'p':
                    if c in '([<':
                        d += 1
                    elif c in ')]>':
                        d -= 1
                    elif c == ',' and d == 0:
                        want = True
                    elif c == ':' and d == 0:
                        want = False
                elif want and d == 0 and s.is_id(kk2) and c not in ('mut', 'ref'):
                    pnames.append(c)
                    want = False
            def subst(lst):
                if not lst:
                    return lst
                out = []
                for x in lst:
                    for i_, n_ in enumerate(pnames):
                        x = x.replace('$%d' % i_, n_)
                    if re.search(r'\$\d', x):
                        raise ExtractError('lost anchor: closure %d of fn %s has %d parameter(s)' % (kidx, fnname, len(pnames)))
                    out.append(x)
                return out
            c_req = self.clauses('requires', subst(cl.get('requires')), '                ', fnname)
            c_ens = self.clauses('ensures', subst(cl.get('ensures')), '                ', fnname)
            if c_req or c_ens:
                txt += '\n' + c_req + c_ens + '            '
            # existing `-> T` on the closure is kept if no ret given; with a named result it is replaced by `-> (name: T)`
            if cl.get('ret') and s.is_p(kb + 1, '->'):
                kq = kb + 1
                while not s.is_p(kq, '{'):
                    kq += 1
                ed.delete(s.t[kb + 1][1], s.t[kq][1])
            ed.insert(s.t[kb][2], txt, order=-1)
            self.fired.add('3:closure-splice')
            # Verus wants a braced body after a closure contract: wrap an expression body in { }
            kn = kb + 1
            if s.is_p(kn, '->'):
                while not s.is_p(kn, '{'):
                    kn += 1
            if not s.is_p(kn, '{'):
                m = s.match()
                j = kn
                while j < fp.k_body_close:
                    if s.kind(j) == 'p':
                        c = s.s(j)
                        if c in '([{':
                            j = m[j] + 1
                            continue
                        if c in ')]},;':
                            break
                    j += 1
                ed.insert(s.t[kn][1], '{ ', order=1)
                ed.insert(s.t[j - 1][2], ' }')
                self.fired.add('3b:brace-closure-body')
        # 15: expression abstraction -- a sub-expression Verus cannot digest (a closure capturing `&mut` state, `collect()`,
        # `enumerate()`) is replaced by a call to an assumed-contract function declared in the unit's prelude; the replaced
        # text is the anchor itself (token-exact), so any change to it loses the anchor (undecided), and the abstraction is
        # listed with the assumed contracts in the evidence
        for ab in spec.get('abstract', []):
            try:
                if ab.get('all') and 'call' in ab:
                    # every occurrence of the call (at least one)
                    self._abstract_one(s, fp, ed, spec, fnname, dict(ab, n=0))
                    n_ = 1
                    while True:
                        try:
                            self._abstract_one(s, fp, ed, spec, fnname, dict(ab, n=n_))
                        except ExtractError:
                            break
                        n_ += 1
                else:
                    self._abstract_one(s, fp, ed, spec, fnname, ab)
            except ExtractError as e:
                # `optional = true`: an abstraction whose anchor is gone is skipped -- the code that stands there now is handed
                # to Verus as it is (and is judged by the contracts, or is undecided if it is outside the subset)
                if ab.get('optional') and 'lost anchor' in str(e):
                    self.dropped_closure_contracts.append('%s: abstraction skipped (anchor absent): %s' % (fnname, str(e)[:120]))
                    continue
                raise
        for nf in spec.get('nested', []):
            nitem = self.find_nested(s, fp, nf['name'])
            nfp = FnParts(nitem)
            self.fn_contract(s, nfp, ed, nf, fnname + '::' + nf['name'], False, indent='        ')
        for pr in spec.get('proof', []):
            text = pr.get('text', '').strip()
            block = ' proof { %s } ' % re.sub(r'\s*\n\s*', ' ', text)
            if pr.get('raw'):
                block = ' ' + re.sub(r'\s*\n\s*', ' ', text) + ' '
            if pr.get('assert'):
                # 4b: a NAMED assertion obligation at a program point ("NAME: expr"), on a line of its own so that a failure
                # is reported under its name
                aname, aexpr = split_clause(pr['assert'])
                self.obligations.append({'name': aname, 'kind': 'assert', 'function': fnname, 'text': aexpr})
                block = '\n            proof { %s assert(%s); } // @ob %s\n            ' % (re.sub(r'\s*\n\s*', ' ', text) if text else '', aexpr, aname)
            if pr.get('at') == 'start':
                ed.insert(s.t[fp.k_body_open][2], block)
            elif pr.get('at') == 'end':
                ed.insert(s.t[fp.k_body_close][1], block)
            elif pr.get('at') == 'tail':
                # in front of the body's tail expression (the value the function returns when it falls off the end)
                mm_ = s.match()
                q_ = fp.k_body_open + 1
                last_start = q_
                while q_ < fp.k_body_close:
                    if s.kind(q_) == 'p' and s.s(q_) in '([{':
                        was_brace_ = s.s(q_) == '{'
                        q_ = mm_[q_]
                        if was_brace_ and not s.is_p(q_ + 1, ';') and not s.is_id(q_ + 1, 'else') and not s.is_p(q_ + 1, '.') and not s.is_p(q_ + 1, '?') and q_ + 1 < fp.k_body_close:
                            last_start = q_ + 1
                    elif s.is_p(q_, ';') and q_ + 1 < fp.k_body_close:
                        last_start = q_ + 1
                    q_ += 1
                ed.insert(s.t[last_start][1], block)
            elif 'after_if' in pr:
                # after the whole `if .. { .. } [else ..]` statement that starts with the anchor text (a hint that needs what
                # the check established, wherever the statements that use it come afterwards)
                try:
                    ka, kb = fp.find_stmt(pr['after_if'], pr.get('n', 0))
                except ExtractError:
                    if pr.get('optional'):
                        continue
                    raise
                mm_ = s.match()
                q_ = ka
                while True:
                    while q_ < fp.k_body_close and not s.is_p(q_, '{'):
                        if s.kind(q_) == 'p' and s.s(q_) in '([':
                            q_ = mm_[q_]
                        q_ += 1
                    q_ = mm_[q_]
                    if s.is_id(q_ + 1, 'else'):
                        q_ += 2
                        continue
                    break
                ed.insert(s.t[q_][2], block)
            elif 'after' in pr or 'before' in pr:
                try:
                    ka, kb = fp.find_stmt(pr.get('after', pr.get('before')), pr.get('n', 0))
                except ExtractError:
                    if pr.get('optional'):
                        continue     # a proof hint for code that is gone; what stands there now is judged without it
                    raise
                if 'after' in pr:
                    ke = fp.stmt_end(kb)
                    ed.insert(s.t[ke][2], block)
                else:
                    ed.insert(s.t[ka][1], block)
            elif 'loop_end' in pr or 'loop_start' in pr or 'before_loop' in pr:
                # the loop by ordinal, or by the `name` its loop contract carries (a proof for a loop whose contract was
                # dropped as moot is dropped with it)
                ref_ = pr.get('loop_end', pr.get('loop_start', pr.get('before_loop')))
                if isinstance(ref_, str):
                    ref_ = getattr(self, '_loop_names', {}).get((id(fp), ref_))
                    if ref_ is None:
                        continue
                _kw, kopen = loops[ref_]
                if 'before_loop' in pr:
                    ed.insert(s.t[_kw][1], block)
                elif 'loop_end' in pr:
                    ed.insert(s.t[s.match()[kopen]][1], block)
                else:
                    ed.insert(s.t[kopen][2], block)
            else:
                raise ValueError('proof splice without position in %s' % fnname)
            self.fired.add('4:proof-splice')
        for ds in spec.get('desugar', []):
            import desugar
            ka, kb = fp.find_stmt(ds['stmt'], ds.get('n', 0))
            ke = fp.stmt_end(kb + 1)
            a = s.t[ka][1]
            b = s.t[ke][1] if s.is_p(ke, ';') else s.t[ke][2]
            new = desugar.desugar_stmt(s.text[a:b], ds.get('ops', '+-*/%'))
            ed.replace(a, b, new)
            self.fired.add('10:operator-desugar')

    def _abstract_one(self, s, fp, ed, spec, fnname, ab):
        if 'let' in ab:
            # `let = "name"`: the whole initializer of `let name = <expr>;` (the replaced text is pinned by its hash in
            # the ledger like every assumed contract, so an edit inside it is undecided, never silently ignored)
            k0, k1 = fp.find_stmt('let %s' % ab['let'], ab.get('n', 0))
            k1 += 1
            d_ = 0
            while k1 < fp.k_body_close and not (d_ == 0 and s.is_p(k1, '=')):    # an optional `: Type` before the `=`
                if s.kind(k1) == 'p' and s.s(k1) in '<([':
                    d_ += 1
                elif s.kind(k1) == 'p' and s.s(k1) in '>)]':
                    d_ -= 1
                elif s.is_p(k1, ';'):
                    raise ExtractError('lost anchor: `let %s` in fn %s has no initializer' % (ab['let'], fnname))
                k1 += 1
            ka = k1 + 1
            kb = fp.stmt_end(ka) - 1
            if kb < ka or not s.is_p(kb + 1, ';'):
                raise ExtractError('lost anchor: initializer of `let %s` in fn %s' % (ab['let'], fnname))
        elif 'call' in ab:
            # 15c: only the CALLEE of a path call is replaced -- `f(args)` becomes `as(<first>, args)`: the arguments stay the
            # real text and are checked against the stand-in's contract (an edit to an argument is decided, not a lost anchor)
            ka, kb = fp.find_stmt(ab['call'] + '(', ab.get('n', 0))
            if s.is_p(ka - 1, '.') or s.is_p(ka - 1, '::'):
                raise ExtractError('lost anchor: call `%s(` in fn %s is not a plain path call' % (ab['call'], fnname))
            first = ab.get('first', '')
            if spec.get('journal_param'):
                first = first.replace('&mut verif_journal', '&mut *verif_journal')
            recv = ''
            if '.' in ab['call']:
                # a method call `RECV.m(args)`: the receiver expression is handed over as an argument of its own
                recv = ab.get('recv_prefix', '') + (ab.get('recv_as') or ab['call'][:ab['call'].rindex('.')].strip()) + ', '
            closes_now = s.is_p(kb + 1, ')')
            lead = (first + ', ' if first else '') + recv
            if closes_now:
                lead = lead.rstrip(', ')
            ed.replace(s.t[ka][1], s.t[kb][2], ab['as'] + '(' + lead)
            self.assumed.append({'function': '%s :: callee `%s` replaced by %s' % (fnname, ab['call'], ab['as']),
                                 'sha256': hashlib.sha256(ab['call'].encode()).hexdigest(), 'proved_in': None})
            self.fired.add('15c:replace-callee')
            return
        elif 'loop_head' in ab:
            # a whole loop statement named by its header: `for HEAD { BODY }` is replaced by the stand-in.  With `pin = "head"`
            # only the header is pinned -- for a loop whose BODY is lifted (23) and verified from its real text in the same unit
            want_ = extract._tok_strings(ab['loop_head'])
            mm_ = s.match()
            hit_ = None
            for (kw_, ko_) in fp.loops():
                if [s.s(q) for q in range(kw_, ko_)] == want_:
                    hit_ = (kw_, mm_[ko_])
                    break
            if hit_ is None:
                raise ExtractError('lost anchor: no loop of fn %s reads `%s`' % (fnname, ab['loop_head']))
            ka, kb = hit_
            orig_ = s.text[s.t[ka][1]:s.t[kb][2]]
            ed.replace(s.t[ka][1], s.t[kb][2], ab['as'].replace('&mut verif_journal', '&mut *verif_journal') if spec.get('journal_param') else ab['as'])
            pinned_ = re.sub(r'\s+', ' ', ab['loop_head'] if ab.get('pin') == 'head' else orig_)
            self.assumed.append({'function': '%s :: loop `%s` abstracted as %s' % (fnname, ab['loop_head'][:80], ab['as'].split('(')[0].strip()),
                                 'sha256': hashlib.sha256(pinned_.encode()).hexdigest(), 'proved_in': None})
            self.fired.add('15:abstract-expression')
            return
        elif 'whole_call' in ab:
            # the whole call expression `f( .. )` named by its callee (arguments included, whatever they are; the replaced
            # text is pinned by hash like a let-form): for calls whose argument is outside the subset, e.g. an async block
            if ab.get('all'):
                n_ = 1
                while True:
                    try:
                        kx, ky = fp.find_stmt(ab['whole_call'] + '(', n_)
                    except ExtractError:
                        break
                    ed.replace(s.t[kx][1], s.t[s.match()[ky]][2], ab['as'])
                    n_ += 1
            ka, kq = fp.find_stmt(ab['whole_call'] + '(', ab.get('n', 0))
            kb = s.match()[kq]
        else:
            if ab.get('all'):
                # `all = true`: every occurrence of the expression in the body (at least one)
                n_ = 1
                while True:
                    try:
                        kx, ky = fp.find_stmt(ab['expr'], n_)
                    except ExtractError:
                        break
                    ed.replace(s.t[kx][1], s.t[ky][2], ab['as'])
                    n_ += 1
            if '$1' in ab['expr']:
                # an expression with ONE hole: `PREFIX $1 SUFFIX` matches PREFIX, then any balanced token run, then SUFFIX; the
                # run's real text is substituted for `$1` in the stand-in, so it stays real text and is judged (an edit to it
                # is decided, not a lost anchor)
                pre_, suf_ = [x.strip() for x in ab['expr'].split('$1')]
                ka, kp_ = fp.find_stmt(pre_, ab.get('n', 0))
                want_ = extract._tok_strings(suf_)
                q_ = kp_ + 1
                mm_ = s.match()
                kb = None
                while q_ < fp.k_body_close:
                    if [s.s(q_ + i_) for i_ in range(len(want_))] == want_:
                        kb = q_ + len(want_) - 1
                        break
                    if s.kind(q_) == 'p' and s.s(q_) in '([{':
                        q_ = mm_[q_] + 1
                        continue
                    if s.kind(q_) == 'p' and s.s(q_) in ')]};':
                        break
                    q_ += 1
                if kb is None or q_ == kp_ + 1:
                    raise ExtractError('lost anchor: statement %r (occurrence %d) not found in fn %s' % (ab['expr'], ab.get('n', 0), fnname))
                hole_ = s.text[s.t[kp_ + 1][1]:s.t[q_ - 1][2]]
                ab = dict(ab, **{'as': ab['as'].replace('$1', hole_)})
                orig_pin_ = re.sub(r'\s+', ' ', pre_ + ' $1 ' + suf_)
            else:
                ka, kb = fp.find_stmt(ab['expr'], ab.get('n', 0))
        orig = s.text[s.t[ka][1]:s.t[kb][2]]
        if 'expr' in ab and '$1' in ab['expr']:
            orig = orig_pin_
        as_text = ab['as'].replace('&mut verif_journal', '&mut *verif_journal') if spec.get('journal_param') else ab['as']
        ed.replace(s.t[ka][1], s.t[kb][2], as_text)
        what = ('initializer of `let %s`' % ab['let']) if 'let' in ab else ('expression `%s`' % re.sub(r'\s+', ' ', orig)[:160])
        pinned = re.sub(r'\s+', ' ', orig)
        if ab.get('pin') == 'callee' and 'whole_call' in ab:
            # the argument of the replaced call (a closure) is LIFTED and verified from its real text elsewhere in the same unit,
            # so only the callee is pinned: an edit inside the closure is decided by the lifted function's contract
            pinned = ab['whole_call']
        self.assumed.append({'function': '%s :: %s abstracted as %s' % (fnname, what, ab['as'].split('(')[0].strip()),
                             'sha256': hashlib.sha256(pinned.encode()).hexdigest(), 'proved_in': None})
        self.fired.add('15:abstract-expression')

    def find_nested(self, s, fp, name):
        m = s.match()
        for k in range(fp.k_body_open + 1, fp.k_body_close):
            if s.is_id(k, 'fn') and s.is_id(k + 1, name):
                j = k + 2
                while not s.is_p(j, '{'):
                    if s.kind(j) == 'p' and s.s(j) in '([':
                        j = m[j] + 1
                        continue
                    j += 1
                return Item(s, 'fn', name, k, k, m[j], [])
        raise ExtractError('lost anchor: nested fn %s' % name)

    # ---- whole unit --------------------------------------------------------------------------------
    def build(self):
        u = self.u
        parts = ['// GENERATED on every run by vlib/assemble_verus.py from /repo -- do not edit\n',
                 '#![allow(unused_imports, unused_variables, dead_code, unused_mut, unused_parens, unused_braces, non_snake_case)]\n',
                 ]
        for l in u.get('crate_attrs', []):
            parts.append(l + '\n')
        parts += ['use vstd::prelude::*;\n']
        for l in u.get('uses_outside', []):
            parts.append(l + '\n')
        parts.append('verus! {\n')
        for pf in u.get('prelude', []):
            with open(os.path.join(ROOT, 'contracts', 'prelude', pf), encoding='utf-8') as f:
                parts.append('// ---- prelude %s (ASSUMED / spec-only text, not from /repo)\n' % pf)
                parts.append(f.read() + '\n')
        if u.get('prelude_text'):
            parts.append('// ---- unit prelude (spec functions, lemmas, assumed externals)\n')
            parts.append(u['prelude_text'] + '\n')
        cur_impl = None
        cur_mod = None
        for idx, spec in enumerate(u.get('item', [])):
            want_mod = spec.get('_module')
            if want_mod != cur_mod:
                if cur_impl is not None:
                    parts.append('}\n')
                    cur_impl = None
                if cur_mod is not None:
                    parts.append('} // mod %s\n' % cur_mod)
                if want_mod is not None:
                    parts.append('pub mod %s {\n#[allow(unused_imports)] use super::*;\n' % want_mod)
                cur_mod = want_mod
            s = self.src(spec['file'])
            if 'spec_text' in spec:
                path = spec['in'] + '::fn __spec__'
            else:
                path = spec['path']
            segs = [x for x in re.split(r'::(?=\s*(?:fn|struct|enum|union|const|static|type|mod|impl|trait|macro)\b)', path)]
            impl_seg = None
            for sg in segs[:-1]:
                if sg.strip().startswith('impl') or sg.strip().startswith('trait') or sg.strip().startswith('mod'):
                    impl_seg = sg.strip()
            in_trait_impl = bool(impl_seg and (re.search(r'\bfor\b', impl_seg) or impl_seg.startswith('trait')))
            key = (spec['file'], impl_seg) if impl_seg else None
            if spec.get('lift_loop', {}).get('free') or spec.get('lift', {}).get('free'):
                # a lifted body emitted as a FREE function (the enclosing impl is a trait impl, which cannot hold an extra
                # method): `self` tokens of the body are renamed to the parameter named by `self_as`
                key = None
            if spec.get('hoist_as'):
                # 20: an associated const hoisted to a free const under a new name (Verus panics -- vir/poly.rs -- on an
                # associated const of a lifetime-generic type); the text after the name is the real item's, and uses of it are
                # redirected by an expression abstraction `Self::NAME` -> the new name
                key = None
            if key != cur_impl:
                if cur_impl is not None:
                    parts.append('}\n')
                if key is not None:
                    # emit the real impl / trait header
                    impl_path = path[:path.rindex(segs[-1])].rstrip(':')
                    impl_item = extract.locate(s, impl_path)
                    br = impl_item.body_range()
                    hed = Edits()
                    pseudo = Item(s, 'trait' if impl_seg.startswith('trait') else 'implhdr', '', impl_item.k_first, impl_item.k_kw, br[0] - 1, [])
                    self.common_edits(s, pseudo, hed, {'keep_vis': not impl_seg.startswith('trait')})
                    hdr = hed.apply(s.text, impl_item.start, s.t[br[0]][1])
                    if impl_seg.startswith('mod'):
                        hdr = 'pub ' + impl_seg
                    parts.append(hdr.strip() + ' {\n')
                    if impl_seg.startswith('mod'):
                        parts.append('#[allow(unused_imports)] use super::*;\n')
                cur_impl = key
            if 'spec_text' in spec:
                parts.append('// ---- ghost member added to the real %s (spec only)\n' % impl_seg)
                parts.append(spec['spec_text'].rstrip() + '\n')
                self.fired.add('1b:ghost-member-in-real-impl')
                continue
            item = extract.locate(s, path)
            if spec.get('contract_from'):
                # the contract text is the one proved in another unit (same TOML entry), used here as the callee contract
                with open(os.path.join(ROOT, 'contracts', spec['contract_from'] + '.toml'), 'rb') as f:
                    other = tomllib.load(f)
                src_spec = [o for o in other.get('item', []) if o.get('path') == path and o.get('file') == spec['file']]
                if not src_spec:
                    raise ValueError('contract_from: %s has no item %s' % (spec['contract_from'], path))
                spec = dict(spec)
                for k in ('result', 'requires', 'ensures'):
                    if k in src_spec[0]:
                        spec[k] = src_spec[0][k]
                spec['assumed'] = True
                self.proved_elsewhere.append({'function': path, 'unit': spec['contract_from']})
            fnname = (impl_seg + '::' if impl_seg else '') + segs[-1].strip()
            ed = Edits()
            self.common_edits(s, item, ed, spec, in_trait_impl)
            if item.kind == 'fn':
                self.fn_edits(s, item, ed, spec, fnname, (self.canary == idx or (self.canary == 'all' and not spec.get('assumed'))))
                if not spec.get('assumed'):
                    self.functions.append({'function': fnname, 'file': spec['file'],
                                           'sha256': hashlib.sha256(item.text().encode()).hexdigest(),
                                           'item_index': idx,
                                           'has_contract': bool(spec.get('requires') or spec.get('ensures') or spec.get('loop')) and FnParts(item).k_body_open is not None})
            if item.kind == 'struct' and spec.get('keep_fields') is not None:
                # struct projection: fields the extracted functions do not use are dropped (mechanical; rustc rejects
                # any body that touches a dropped field)
                keep = set(spec['keep_fields'])
                br = item.body_range()
                m = s.match()
                k = br[0] + 1
                seen = set()
                while k < br[1]:
                    f0 = k
                    while s.is_p(k, '#'):
                        k = m[k + 1] + 1
                    kk = k
                    if s.is_id(kk, 'pub'):
                        kk += 1
                        if s.is_p(kk, '('):
                            kk = m[kk] + 1
                    fname = s.s(kk)
                    # find end of field: ',' at depth 0 (skipping generics)
                    j = kk
                    d = 0
                    while j < br[1]:
                        if s.kind(j) == 'p':
                            c = s.s(j)
                            if c in '([{':
                                j = m[j] + 1
                                continue
                            if c == '<':
                                d += 1
                            elif c == '>':
                                d -= 1
                            elif c == ',' and d == 0:
                                break
                        j += 1
                    f1 = j  # index of ',' or br[1]
                    if fname in keep:
                        seen.add(fname)
                    else:
                        endpos = s.t[f1][2] if f1 < br[1] else s.t[br[1]][1]
                        ed.delete(s.t[f0][1], endpos)
                        # the `pub ` that visibility normalisation put in front of a private dropped field goes with it
                        ed.e = [x for x in ed.e if not (x[1] == 0 and x[2] == 'pub ' and s.t[f0][1] <= x[0] < endpos)]
                    k = f1 + 1
                missing = keep - seen
                if missing:
                    raise ExtractError('lost anchor: struct %s has no field(s) %s' % (item.name, ', '.join(sorted(missing))))
                self.fired.add('13:struct-projection')
            for a in spec.get('attrs', []):
                ed.insert(item.start, a + '\n', order=-3)
            if item.kind in ('const', 'static'):
                for k in range(item.k_kw, item.k_last):
                    if s.is_p(k, '&') and s.is_id(k + 1, 'str'):
                        ed.insert(s.t[k][2], "'static ")
                        self.fired.add("6:'static on &str const")
                    if s.is_p(k, '='):
                        break
            if item.kind == 'fn' and spec.get('lift'):
                text = self.lift_closure(s, item, ed, spec, fnname, (self.canary == idx or (self.canary == 'all' and not spec.get('assumed'))))
            elif item.kind == 'fn' and spec.get('lift_loop'):
                text = self.lift_loop(s, item, ed, spec, fnname, (self.canary == idx or (self.canary == 'all' and not spec.get('assumed'))))
            else:
                if spec.get('hoist_as'):
                    if item.kind != 'const':
                        raise ExtractError('lost anchor: %s is not a const' % fnname)
                    ed.replace(s.t[item.k_kw + 1][1], s.t[item.k_kw + 1][2], spec['hoist_as'])
                    self.fired.add('20:hoist-associated-const')
                text = ed.apply(s.text, item.start, item.end)
            text = re.sub(r'\n[ \t]*\n([ \t]*\n)+', '\n\n', text)
            parts.append('// @fn %s  [%s]\n' % (fnname, spec['file']))
            parts.append(text.rstrip() + '\n')
            parts.append('// @endfn\n')
        if cur_impl is not None:
            parts.append('}\n')
        if cur_mod is not None:
            parts.append('} // mod %s\n' % cur_mod)
        if u.get('epilogue_text'):
            parts.append(u['epilogue_text'] + '\n')
        parts.append('} // verus!\n')
        if u.get('outside_text'):
            parts.append(u['outside_text'] + '\n')
        parts.append('fn main() {}\n')
        text = ''.join(parts)
        return text

    def meta(self, text):
        ob_lines = {}
        fn_ranges = []
        cur = None
        for ln, line in enumerate(text.split('\n'), 1):
            mm = re.search(r'// @ob (\S+)', line)
            if mm:
                ob_lines[ln] = mm.group(1)
            if '// @canary' in line:
                ob_lines[ln] = '@canary'
            mm = re.match(r'// @fn (.*?)  \[', line)
            if mm:
                cur = [mm.group(1), ln, None]
            if line.startswith('// @endfn') and cur:
                cur[2] = ln
                fn_ranges.append(tuple(cur))
                cur = None
        scan = {}
        for pat in ('assume_specification', 'external_body', 'external_trait_specification', 'external_type_specification',
                    'assume(', 'admit(', 'verifier::external]', 'verifier::external)', 'uninterp spec fn', 'axiom'):
            scan[pat] = len(re.findall(re.escape(pat), text))
        return {'ob_lines': ob_lines, 'fn_ranges': fn_ranges, 'assumption_scan': scan,
                'transformations': sorted(self.fired), 'functions': self.functions,
                'assumed': self.assumed, 'obligations': self.obligations, 'proved_elsewhere': self.proved_elsewhere,
                'moot': self.moot, 'dropped_closure_contracts': self.dropped_closure_contracts}


def assemble(unit_path, repo, canary=None):
    a = Assembler(unit_path, repo, canary)
    text = a.build()
    return text, a.meta(text), a.u
