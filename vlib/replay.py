"""Witness search and replay against the real code (DESIGN.md §2.4).

* find_witness(unit_result, failed, workdir, repo): after a Verus obligation failed, try to obtain a concrete failing
  input by running the unit's native driver (C09) or its paired Kani harness; returns a dict or None.
* replay(pid, path): re-execute a stored witness on the current tree; exit 1 iff it still fails.
"""
import json
import os
import shutil
import subprocess
import sys

HERE = os.path.dirname(os.path.abspath(__file__))
ROOT = os.path.dirname(HERE)


_WCACHE = {}


def _build_freezer_driver(workdir, repo):
    d = os.path.join(workdir, 'freezer_driver')
    if os.path.exists(os.path.join(d, 'target', 'debug', 'verif-freezer-driver')):
        return os.path.join(d, 'target', 'debug', 'verif-freezer-driver'), None
    shutil.rmtree(d, ignore_errors=True)
    shutil.copytree(os.path.join(ROOT, 'native', 'freezer_driver'), d)
    with open(os.path.join(d, 'Cargo.toml.in')) as f:
        t = f.read().replace('@REPO@', repo)
    with open(os.path.join(d, 'Cargo.toml'), 'w') as f:
        f.write(t)
    shutil.copy(os.path.join(repo, 'Cargo.lock'), os.path.join(d, 'Cargo.lock'))
    env = dict(os.environ, CARGO_TARGET_DIR=os.path.join(d, 'target'), CARGO_NET_OFFLINE='true')
    p = subprocess.run(['cargo', 'build', '--offline'], cwd=d, env=env, capture_output=True, text=True, timeout=1800)
    if p.returncode != 0:
        return None, p.stderr[-2000:]
    return os.path.join(d, 'target', 'debug', 'verif-freezer-driver'), None


def freezer_search(workdir, repo):
    exe, err = _build_freezer_driver(workdir, repo)
    if exe is None:
        return None, 'native driver did not build: %s' % err
    p = subprocess.run([exe, 'search'], capture_output=True, text=True, timeout=1800)
    states = []
    for line in p.stdout.split('\n'):
        line = line.strip()
        if line.startswith('{'):
            try:
                states.append(json.loads(line))
            except json.JSONDecodeError:
                pass
    return states, p.stderr.strip()[-500:]


def find_witness(unit_res, failed, workdir, repo):
    unit = unit_res['unit']
    if unit == 'c09_freezer':
        states, note = freezer_search(workdir, repo)
        if not states:
            return None
        fn = failed.get('function') or ''
        seq_states = [st for st in states if 'sequence' in st]
        crash_states = [st for st in states if 'sequence' not in st]
        # same-session obligations (append / Head::write / write_index / get_bounds / retrieve / truncate) are witnessed by an
        # operation sequence, re-open obligations (build / open_index) by a crash state
        if not (fn.endswith('fn build') or fn.endswith('fn open_index')):
            if not seq_states:
                return None
            pick = seq_states[0]
            return {'kind': 'freezer-crash-state', 'state': pick, 'search_note': note,
                    'replay_args': ['replay-seq', pick['sequence'], str(pick['item_len']), str(pick['max_file'])],
                    'meaning': "operation sequence run on the real FreezerFiles in one temp directory and checked against a Vec model: A append next item, F/M/L retrieve first/middle/last item, T truncate keeping all but the last item, O drop and re-open; then everything is read back, before and after a final re-open"}
        if not crash_states:
            return None
        # open_index obligations are witnessed by the "first index write cut short" state, build's by a data-file state
        want_first = failed['name'].startswith('C09.open_index') or fn.endswith('open_index')
        pick = None
        for st in crash_states:
            if (st['n_items'] == 0) == want_first:
                pick = st
        if pick is None:
            pick = crash_states[0]
        return {'kind': 'freezer-crash-state', 'state': pick, 'search_note': note,
                'replay_args': ['replay', str(pick['n_items']), str(pick['item_len']), str(pick['max_file']), str(pick['index_len']),
                                str(pick['head_file_id']), str(pick['head_len'])],
                'meaning': 'directory produced by the real FreezerFiles::append for n_items items, then INDEX cut to index_len bytes and data file blk<head_file_id> cut to head_len bytes (or removed); the real FreezerFilesBuilder::build / retrieve / append are then run on it'}
    # Verus unit with a paired Kani harness for the failed function: ask CBMC for a concrete input
    wm = unit_res.get('witness_map') or {}
    ent = wm.get(failed.get('function') or '')
    if ent and (unit, failed.get('function')) in _WCACHE:
        return _WCACHE[(unit, failed.get('function'))]
    if ent:
        _WCACHE[(unit, failed.get('function'))] = None
        import run as runmod
        import kani_units
        for e1 in (ent if isinstance(ent, list) else [ent]):
            ku = dict(runmod.load_units()[e1['unit']])
            ku['harness'] = [h for h in ku['harness'] if h['name'] == e1['harness']]
            kr = kani_units.run_kani_unit(ku, workdir, 'thorough', repo)
            for f in kr['failed']:
                if f.get('witness'):
                    w = f['witness']
                    w['found_by'] = 'paired Kani harness %s (unit %s), failing check %s' % (e1['harness'], e1['unit'], f['name'])
                    _WCACHE[(unit, failed.get('function'))] = w
                    return w
    return None


def replay(pid, path):
    repo = os.environ.get('VERIF_REPO', '/repo')
    with open(path if os.path.isabs(path) else os.path.join(ROOT, path)) as f:
        doc = json.load(f)
    w = doc.get('witness')
    if not w:
        print('replay file carries no concrete input (no-failing-input-found): obligation %s, verifier output attached' % doc.get('failed_obligation'))
        # re-run the check itself: exit 1 iff the obligation still fails
        import run
        return run.check_property(pid, 'quick', [doc['unit']])
    workdir = os.path.join(os.environ.get('VERIF_SCRATCH', '/var/tmp'), 'ckbverif.replay.%d' % os.getpid())
    os.makedirs(workdir, exist_ok=True)
    try:
        if w['kind'] == 'freezer-crash-state':
            exe, err = _build_freezer_driver(workdir, repo)
            if exe is None:
                print('cannot build native driver: %s' % err)
                return 2
            p = subprocess.run([exe] + w['replay_args'], capture_output=True, text=True)
            print(p.stdout.strip())
            if p.returncode != 0:
                print('VIOLATION property=%s replay=%s' % (pid, path))
                return 1
            return 0
        if w['kind'] == 'kani-concrete':
            import kani_units
            doc = dict(doc); doc['unit'] = w.get('unit', doc['unit'])
            return kani_units.replay_native(pid, doc, workdir, repo, path)
    finally:
        shutil.rmtree(workdir, ignore_errors=True)
    print('unknown witness kind')
    return 2
