//! Native replay / witness search for property C09 against the REAL ckb-freezer (FreezerFilesBuilder::build,
//! FreezerFiles::{append,retrieve,number}).  Used only to find or replay a concrete failing crash state after a
//! proof obligation failed; never used to pass a check.
//!
//! usage:  driver search            enumerate small crash states, print the first failing one as JSON, exit 1 if any
//!         driver replay <n_items> <item_len> <max_file> <index_len> <head_file_id> <head_len>
use ckb_freezer::FreezerFilesBuilder;
use std::fs;
use std::path::Path;

fn item(i: u64, len: usize) -> Vec<u8> { vec![i as u8; len] }

/// build a freezer with n_items appended (item i = [i; item_len]) and return the index bytes
fn populate(dir: &Path, n_items: u64, item_len: usize, max_file: u64) {
    let mut f = FreezerFilesBuilder::new(dir.to_path_buf()).max_file_size(max_file).enable_compression(false).build().unwrap();
    f.preopen().unwrap();
    for i in 1..=n_items { f.append(i, &item(i, item_len)).unwrap(); }
}

fn entry(idx: &[u8], j: usize) -> (u32, u64) {
    let r = &idx[12 * j..12 * j + 12];
    (u32::from_le_bytes(r[0..4].try_into().unwrap()), u64::from_le_bytes(r[4..12].try_into().unwrap()))
}

fn file_len(dir: &Path, id: u32) -> u64 { fs::metadata(dir.join(format!("blk{:06}", id))).map(|m| m.len()).unwrap_or(0) }

/// apply the crash state and check the property on re-open.  Returns Err(description) on violation.
fn check_state(n_items: u64, item_len: usize, max_file: u64, index_len: u64, head_id: u32, head_len: Option<u64>) -> Result<(), String> {
    let tmp = tempfile::Builder::new().prefix("verif-freezer").tempdir().unwrap();
    let dir = tmp.path();
    populate(dir, n_items, item_len, max_file);
    // crash: cut the index and the head data file (None = file missing)
    let idx_path = dir.join("INDEX");
    fs::OpenOptions::new().write(true).open(&idx_path).unwrap().set_len(index_len).unwrap();
    let head_path = dir.join(format!("blk{:06}", head_id));
    match head_len {
        Some(l) => fs::OpenOptions::new().write(true).create(true).open(&head_path).unwrap().set_len(l).unwrap(),
        None => { let _ = fs::remove_file(&head_path); }
    }
    // which items are fully written (index record complete AND all data bytes on disk)?
    let idx = fs::read(&idx_path).unwrap();
    let whole = idx.len() / 12;
    let mut complete: u64 = 0;
    for j in 1..whole {
        let (fid, off) = entry(&idx, j);
        if file_len(dir, fid) >= off { complete = j as u64; } else { break; }
    }
    // re-open with the real code
    let mut f = match FreezerFilesBuilder::new(dir.to_path_buf()).max_file_size(max_file).enable_compression(false).build() {
        Ok(f) => f,
        Err(e) => return Err(format!("re-open failed: {e}")),
    };
    f.preopen().map_err(|e| format!("preopen failed: {e}"))?;
    let number = f.number();
    if number < complete + 1 {
        return Err(format!("number()={number} but {complete} items were fully written (expected number() >= {})", complete + 1));
    }
    for i in 1..number {
        match f.retrieve(i) {
            Ok(Some(d)) if d == item(i, item_len) => {}
            other => return Err(format!("retrieve({i}) returned {:?} instead of the {item_len} bytes {i} as written", other.map(|o| o.map(|v| (v.len(), v.first().copied()))))),
        }
    }
    // subsequent appends + retrievals work on that prefix: first a small item (fits into the repaired head file), then a full one
    f.append(number, &item(199, 5)).map_err(|e| format!("append after re-open failed: {e}"))?;
    match f.retrieve(number) {
        Ok(Some(d)) if d == item(199, 5) => {}
        other => return Err(format!("retrieve of the 5-byte item appended after re-open returned {:?}", other.map(|o| o.map(|v| (v.len(), v.first().copied())))))
    }
    f.append(number + 1, &item(200, item_len)).map_err(|e| format!("second append after re-open failed: {e}"))?;
    match f.retrieve(number + 1) {
        Ok(Some(d)) if d == item(200, item_len) => {}
        other => return Err(format!("retrieve of the item appended after re-open returned {:?}", other.map(|o| o.map(|v| v.len())))),
    }
    // and they survive a clean re-open
    drop(f);
    let mut f = FreezerFilesBuilder::new(dir.to_path_buf()).max_file_size(max_file).enable_compression(false).build().map_err(|e| format!("second re-open failed: {e}"))?;
    f.preopen().map_err(|e| format!("preopen failed: {e}"))?;
    if f.number() != number + 2 { return Err(format!("after appending 2 items to a repaired freezer and re-opening, number()={} instead of {}", f.number(), number + 2)); }
    match f.retrieve(number) {
        Ok(Some(d)) if d == item(199, 5) => {}
        other => return Err(format!("after a clean re-open, retrieve of the 5-byte item returned {:?}", other.map(|o| o.map(|v| (v.len(), v.first().copied())))))
    }
    for i in 1..number {
        match f.retrieve(i) {
            Ok(Some(d)) if d == item(i, item_len) => {}
            other => return Err(format!("after a further append, retrieve({i}) returned {:?}", other.map(|o| o.map(|v| (v.len(), v.first().copied()))))),
        }
    }
    Ok(())
}


/// same-session operation sequences checked against a plain Vec model ("after any sequence of appends,
/// truncations and re-opens ... each returned byte-for-byte as written")
/// ops: 'A' append next item, 'F' retrieve first item, 'M' retrieve a middle item, 'L' retrieve last item,
///      'T' truncate keeping all but the last item, 'O' drop and re-open
fn check_sequence(ops: &str, item_len: usize, max_file: u64) -> Result<(), String> {
    let tmp = tempfile::Builder::new().prefix("verif-freezer").tempdir().unwrap();
    let dir = tmp.path();
    let open = || -> Result<_, String> {
        let mut f = FreezerFilesBuilder::new(dir.to_path_buf()).max_file_size(max_file).enable_compression(false).build().map_err(|e| format!("open failed: {e}"))?;
        f.preopen().map_err(|e| format!("preopen failed: {e}"))?;
        Ok(f)
    };
    let mut f = open()?;
    let mut model: Vec<Vec<u8>> = Vec::new();   // model[i-1] = item i
    let mut next_tag: u64 = 1;
    for (step, op) in ops.chars().enumerate() {
        match op {
            'A' => {
                let n = model.len() as u64 + 1;
                let d = item(next_tag, item_len);
                next_tag += 1;
                f.append(n, &d).map_err(|e| format!("step {step} append({n}) failed: {e}"))?;
                model.push(d);
            }
            'F' | 'M' | 'L' => {
                if model.is_empty() { continue; }
                let i = match op { 'F' => 1, 'L' => model.len(), _ => (model.len() + 1) / 2 };
                match f.retrieve(i as u64) {
                    Ok(Some(d)) if d == model[i - 1] => {}
                    other => return Err(format!("step {step} retrieve({i}) returned {:?}, expected {} bytes of {}", other.map(|o| o.map(|v| (v.len(), v.first().copied()))), item_len, model[i - 1][0])),
                }
            }
            'T' => {
                if model.len() < 2 { continue; }
                let keep = model.len() as u64 - 1;
                f.truncate(keep).map_err(|e| format!("step {step} truncate({keep}) failed: {e}"))?;
                model.truncate(keep as usize);
            }
            'O' => { drop(f); f = open()?; }
            _ => {}
        }
        if f.number() != model.len() as u64 + 1 {
            return Err(format!("step {step} ({op}): number()={} but the model holds {} items", f.number(), model.len()));
        }
    }
    // final read-back of everything, in the same session and after a re-open
    for pass in 0..2 {
        for i in 1..=model.len() {
            match f.retrieve(i as u64) {
                Ok(Some(d)) if d == model[i - 1] => {}
                other => return Err(format!("final read-back (pass {pass}) retrieve({i}) returned {:?}, expected {} bytes of {}", other.map(|o| o.map(|v| (v.len(), v.first().copied()))), item_len, model[i - 1][0])),
            }
        }
        if pass == 0 { drop(f); f = open()?; if f.number() != model.len() as u64 + 1 { return Err(format!("after final re-open number()={} but the model holds {} items", f.number(), model.len())); } }
    }
    Ok(())
}

fn sequences(alphabet: &[char], len: usize, out: &mut Vec<String>, cur: &mut String) {
    if cur.len() == len { out.push(cur.clone()); return; }
    for c in alphabet { cur.push(*c); sequences(alphabet, len, out, cur); cur.pop(); }
}

fn main() {
    let args: Vec<String> = std::env::args().collect();
    if args.len() >= 5 && args[1] == "replay-seq" {
        match check_sequence(&args[2], args[3].parse().unwrap(), args[4].parse().unwrap()) {
            Ok(()) => { println!("{{\"outcome\":\"property holds on this sequence\"}}"); }
            Err(e) => { println!("{{\"outcome\":\"VIOLATED\",\"detail\":{:?}}}", e); std::process::exit(1); }
        }
        return;
    }
    if args.len() >= 2 && args[1] == "replay" {
        let n: u64 = args[2].parse().unwrap();
        let il: usize = args[3].parse().unwrap();
        let mf: u64 = args[4].parse().unwrap();
        let ixl: u64 = args[5].parse().unwrap();
        let hid: u32 = args[6].parse().unwrap();
        let hl: Option<u64> = if args[7] == "missing" { None } else { Some(args[7].parse().unwrap()) };
        match check_state(n, il, mf, ixl, hid, hl) {
            Ok(()) => { println!("{{\"outcome\":\"property holds on this state\"}}"); }
            Err(e) => { println!("{{\"outcome\":\"VIOLATED\",\"detail\":{:?}}}", e); std::process::exit(1); }
        }
        return;
    }
    // search: items of 15 bytes, 50-byte files (3 items per file), up to 8 items;
    // the LAST append is cut short: every length of its data file from "nothing of it" to "all of it" (or missing),
    // every length of the index from "record not started" to "record complete"; plus a first-ever index write cut short.
    let (il, mf) = (15usize, 50u64);
    let mut fails = 0;
    let mut tried = 0;
    for ixl in 0..=12u64 {
        // crash during the very first open: index file holds 0..12 bytes of the tail marker, no data file yet
        tried += 1;
        if let Err(e) = check_state(0, il, mf, ixl, 0, None) {
            println!("{{\"n_items\":0,\"item_len\":{il},\"max_file\":{mf},\"index_len\":{ixl},\"head_file_id\":0,\"head_len\":\"missing\",\"violation\":{:?}}}", e);
            fails += 1;
            break;
        }
    }
    'outer: for n in 1..=8u64 {
        let last_file = ((n - 1) / 3) as u32;
        let start = ((n - 1) % 3) * il as u64;
        let end = start + il as u64;
        for ixl in (12 * n)..=(12 * (n + 1)) {
            let mut cuts: Vec<Option<u64>> = (start..=end).map(Some).collect();
            if start == 0 { cuts.push(None); }
            for hl in cuts {
                tried += 1;
                if let Err(e) = check_state(n, il, mf, ixl, last_file, hl) {
                    println!("{{\"n_items\":{n},\"item_len\":{il},\"max_file\":{mf},\"index_len\":{ixl},\"head_file_id\":{last_file},\"head_len\":{},\"violation\":{:?}}}",
                        hl.map(|v| v.to_string()).unwrap_or("\"missing\"".into()), e);
                    fails += 1;
                    break 'outer;
                }
            }
        }
    }
    // operation sequences in one session (prefix "AA" so that there is something to read), 15-byte items, 50-byte files
    let mut seqs = Vec::new();
    for l in 1..=5 { sequences(&['A', 'F', 'M', 'L', 'T', 'O'], l, &mut seqs, &mut String::new()); }
    for sq in seqs {
        let ops = format!("AA{sq}A");
        tried += 1;
        if let Err(e) = check_sequence(&ops, il, mf) {
            println!("{{\"sequence\":{:?},\"item_len\":{il},\"max_file\":{mf},\"violation\":{:?}}}", ops, e);
            fails += 1;
            break;
        }
    }
    eprintln!("states tried: {tried}, violations: {fails}");
    if fails > 0 { std::process::exit(1); }
}
