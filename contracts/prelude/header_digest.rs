// ================= ASSUMED: molecule packed::HeaderDigest as an abstract record =================
// ten getters + builder setters behave as a record (HD); BLAKE2b is opaque; U256 addition/multiplication are the
// mathematical ones (256-bit overflow NOT modelled); conversions packed::UintN -> native are total.
impl vstd::std_specs::ops::AddSpecImpl<U256> for U256 {
    open spec fn obeys_add_spec() -> bool { false }
    open spec fn add_req(self, rhs: U256) -> bool { true }
    open spec fn add_spec(self, rhs: U256) -> U256 { arbitrary() }
}
impl ::core::ops::Add<U256> for U256 {
    type Output = U256;
    #[verifier::external_body]
    fn add(self, rhs: U256) -> (r: U256) ensures uval(&r) == uval(&self) + uval(&rhs) { unimplemented!() }
}
#[verifier::external_body] pub struct Blake2b { x: u64 }
impl Blake2b {
    #[verifier::external_body] pub fn update(&mut self, d: &[u8]) { unimplemented!() }
    #[verifier::external_body] pub fn finalize(self, out: &mut [u8]) ensures final(out)@.len() == old(out)@.len() { unimplemented!() }
}
#[verifier::external_body] pub fn new_blake2b() -> Blake2b { unimplemented!() }
pub enum MMRError { MergeError(String) }
pub type MMRResult<T> = Result<T, MMRError>;

// abstract record behind the opaque molecule entity
pub struct HD { pub total_difficulty: nat, pub start_number: u64, pub end_number: u64, pub start_epoch: EpochNumberWithFraction, pub end_epoch: EpochNumberWithFraction,
    pub start_timestamp: u64, pub end_timestamp: u64, pub start_compact_target: u32, pub end_compact_target: u32, pub children_hash: Seq<u8> }
pub mod packed {
    use super::*;
    #[verifier::external_body] pub struct HeaderDigest { x: u64 }
    #[verifier::external_body] pub struct HeaderDigestBuilder { x: u64 }
    #[verifier::external_body] pub struct Uint64 { x: u64 }
    #[verifier::external_body] pub struct Uint32 { x: u64 }
    #[verifier::external_body] pub struct Uint256 { x: u64 }
    #[verifier::external_body] pub struct Byte32 { x: u64 }
    #[verifier::external_body] pub struct Bytes { x: u64 }
}
pub uninterp spec fn hd(d: &packed::HeaderDigest) -> HD;
pub uninterp spec fn hb(d: packed::HeaderDigestBuilder) -> HD;
pub uninterp spec fn u64v(x: packed::Uint64) -> u64;
pub uninterp spec fn u32v(x: packed::Uint32) -> u32;
pub uninterp spec fn u256v(x: packed::Uint256) -> nat;
impl From<packed::Uint64> for u64 { #[verifier::external_body] fn from(x: packed::Uint64) -> (r: u64) ensures r == u64v(x) { unimplemented!() } }
impl From<packed::Uint64> for EpochNumberWithFraction { #[verifier::external_body] fn from(x: packed::Uint64) -> (r: Self) ensures r.0 == u64v(x) { unimplemented!() } }
impl From<packed::Uint256> for U256 { #[verifier::external_body] fn from(x: packed::Uint256) -> (r: U256) ensures uval(&r) == u256v(x) { unimplemented!() } }
impl packed::Bytes { #[verifier::external_body] pub fn raw_data(&self) -> Vec<u8> { unimplemented!() } }
impl packed::HeaderDigest {
    #[verifier::external_body] pub fn calc_mmr_hash(&self) -> packed::Bytes { unimplemented!() }
    #[verifier::external_body] pub fn total_difficulty(&self) -> (r: packed::Uint256) ensures u256v(r) == hd(self).total_difficulty { unimplemented!() }
    #[verifier::external_body] pub fn start_number(&self) -> (r: packed::Uint64) ensures u64v(r) == hd(self).start_number { unimplemented!() }
    #[verifier::external_body] pub fn end_number(&self) -> (r: packed::Uint64) ensures u64v(r) == hd(self).end_number { unimplemented!() }
    #[verifier::external_body] pub fn start_epoch(&self) -> (r: packed::Uint64) ensures u64v(r) == hd(self).start_epoch.0 { unimplemented!() }
    #[verifier::external_body] pub fn end_epoch(&self) -> (r: packed::Uint64) ensures u64v(r) == hd(self).end_epoch.0 { unimplemented!() }
    #[verifier::external_body] pub fn start_timestamp(&self) -> (r: packed::Uint64) ensures u64v(r) == hd(self).start_timestamp { unimplemented!() }
    #[verifier::external_body] pub fn end_timestamp(&self) -> (r: packed::Uint64) ensures u64v(r) == hd(self).end_timestamp { unimplemented!() }
    #[verifier::external_body] pub fn start_compact_target(&self) -> (r: packed::Uint32) ensures u32v(r) == hd(self).start_compact_target { unimplemented!() }
    #[verifier::external_body] pub fn end_compact_target(&self) -> (r: packed::Uint32) ensures u32v(r) == hd(self).end_compact_target { unimplemented!() }
    #[verifier::external_body] pub fn new_builder() -> packed::HeaderDigestBuilder { unimplemented!() }
}
impl packed::HeaderDigestBuilder {
    #[verifier::external_body] pub fn children_hash(self, h: [u8; 32]) -> (r: Self) ensures hb(r) == (HD { children_hash: h@, ..hb(self) }) { unimplemented!() }
    #[verifier::external_body] pub fn total_difficulty(self, v: U256) -> (r: Self) ensures hb(r) == (HD { total_difficulty: uval(&v), ..hb(self) }) { unimplemented!() }
    #[verifier::external_body] pub fn start_number(self, v: packed::Uint64) -> (r: Self) ensures hb(r) == (HD { start_number: u64v(v), ..hb(self) }) { unimplemented!() }
    #[verifier::external_body] pub fn end_number(self, v: packed::Uint64) -> (r: Self) ensures hb(r) == (HD { end_number: u64v(v), ..hb(self) }) { unimplemented!() }
    #[verifier::external_body] pub fn start_epoch(self, v: packed::Uint64) -> (r: Self) ensures hb(r) == (HD { start_epoch: EpochNumberWithFraction(u64v(v)), ..hb(self) }) { unimplemented!() }
    #[verifier::external_body] pub fn end_epoch(self, v: packed::Uint64) -> (r: Self) ensures hb(r) == (HD { end_epoch: EpochNumberWithFraction(u64v(v)), ..hb(self) }) { unimplemented!() }
    #[verifier::external_body] pub fn start_timestamp(self, v: packed::Uint64) -> (r: Self) ensures hb(r) == (HD { start_timestamp: u64v(v), ..hb(self) }) { unimplemented!() }
    #[verifier::external_body] pub fn end_timestamp(self, v: packed::Uint64) -> (r: Self) ensures hb(r) == (HD { end_timestamp: u64v(v), ..hb(self) }) { unimplemented!() }
    #[verifier::external_body] pub fn start_compact_target(self, v: packed::Uint32) -> (r: Self) ensures hb(r) == (HD { start_compact_target: u32v(v), ..hb(self) }) { unimplemented!() }
    #[verifier::external_body] pub fn end_compact_target(self, v: packed::Uint32) -> (r: Self) ensures hb(r) == (HD { end_compact_target: u32v(v), ..hb(self) }) { unimplemented!() }
    #[verifier::external_body] pub fn build(self) -> (r: packed::HeaderDigest) ensures hd(&r) == hb(self) { unimplemented!() }
}
#[verifier::external_body] pub fn verif_opaque_string() -> String { unimplemented!() }
