// ================= ASSUMED environment of RewardVerifier: opaque records with total accessors =================
#[verifier::external_body] pub struct HeaderView { _x: u64 }
#[verifier::external_body] pub struct Error { _x: u64 }
#[verifier::external_body] pub struct DaoError { _x: u64 }
#[verifier::external_body] pub struct Script { _x: u64 }
#[verifier::external_body] pub struct CellOutput { _x: u64 }
#[verifier::external_body] pub struct CellOutputBuilder { _x: u64 }
#[verifier::external_body] pub struct CellOutputVec { _x: u64 }
#[verifier::external_body] pub struct TransactionView { _x: u64 }
#[verifier::external_body] pub struct Consensus { _x: u64 }
pub struct ResolvedTransaction { pub transaction: TransactionView }
pub uninterp spec fn h_number(h: &HeaderView) -> u64;
impl HeaderView { #[verifier::external_body] pub fn number(&self) -> (r: u64) ensures r == h_number(self) { unimplemented!() } }
impl Clone for Script { #[verifier::external_body] fn clone(&self) -> (r: Script) ensures r == *self { unimplemented!() } }
impl PartialEq for Script { #[verifier::external_body] fn eq(&self, o: &Script) -> (r: bool) ensures r == (*self == *o) { unimplemented!() } }
impl vstd::std_specs::cmp::PartialEqSpecImpl for Script {
    open spec fn obeys_eq_spec() -> bool { true }
    open spec fn eq_spec(&self, o: &Script) -> bool { *self == *o }
}
// ASSUMED: derive(PartialEq) on Capacity(u64) compares the field
impl vstd::std_specs::cmp::PartialEqSpecImpl for Capacity {
    open spec fn obeys_eq_spec() -> bool { true }
    open spec fn eq_spec(&self, other: &Self) -> bool { self.0 == other.0 }
}
impl From<DaoError> for Error { #[verifier::external_body] fn from(e: DaoError) -> Self { unimplemented!() } }
impl From<CapacityError> for Error { #[verifier::external_body] fn from(e: CapacityError) -> Self { unimplemented!() } }
impl From<CellbaseError> for Error { #[verifier::external_body] fn from(e: CellbaseError) -> Self { unimplemented!() } }
// a cell output as a record (capacity, lock); building it from the two fields yields exactly that record
pub uninterp spec fn co_capacity(o: &CellOutput) -> u64;
pub uninterp spec fn co_lock(o: &CellOutput) -> Script;
pub uninterp spec fn cob_capacity(o: &CellOutputBuilder) -> u64;
pub uninterp spec fn cob_lock(o: &CellOutputBuilder) -> Script;
// Err (overflow) or whether a cell with this capacity and lock and no data lacks capacity
pub uninterp spec fn lacks_capacity(capacity: u64, lock: Script) -> Option<bool>;
impl CellOutput {
    #[verifier::external_body] pub fn new_builder() -> (r: CellOutputBuilder) { unimplemented!() }
    #[verifier::external_body] pub fn lock(&self) -> (r: Script) ensures r == co_lock(self) { unimplemented!() }
    #[verifier::external_body] pub fn is_lack_of_capacity(&self, data_capacity: Capacity) -> (r: CapacityResult<bool>)
        ensures data_capacity.0 == 0 ==> (match lacks_capacity(co_capacity(self), co_lock(self)) { Some(b) => r is Ok && r->Ok_0 == b, None => r is Err }) { unimplemented!() }
}
impl CellOutputBuilder {
    #[verifier::external_body] pub fn capacity(self, c: Capacity) -> (r: Self) ensures cob_capacity(&r) == c.0, cob_lock(&r) == cob_lock(&self) { unimplemented!() }
    #[verifier::external_body] pub fn lock(self, l: Script) -> (r: Self) ensures cob_lock(&r) == l, cob_capacity(&r) == cob_capacity(&self) { unimplemented!() }
    #[verifier::external_body] pub fn build(self) -> (r: CellOutput) ensures co_capacity(&r) == cob_capacity(&self), co_lock(&r) == cob_lock(&self) { unimplemented!() }
}
// the cellbase transaction: its outputs and their total capacity
pub uninterp spec fn tx_outputs(t: &TransactionView) -> Seq<CellOutput>;
pub uninterp spec fn tx_outputs_capacity(t: &TransactionView) -> Option<u64>;   // None = overflow
pub uninterp spec fn cov(v: &CellOutputVec) -> Seq<CellOutput>;
impl TransactionView {
    #[verifier::external_body] pub fn outputs(&self) -> (r: CellOutputVec) ensures cov(&r) == tx_outputs(self) { unimplemented!() }
    #[verifier::external_body] pub fn outputs_capacity(&self) -> (r: CapacityResult<Capacity>)
        ensures match tx_outputs_capacity(self) { Some(c) => r is Ok && r->Ok_0.0 == c, None => r is Err } { unimplemented!() }
}
impl CellOutputVec {
    #[verifier::external_body] pub fn is_empty(&self) -> (r: bool) ensures r == (cov(self).len() == 0) { unimplemented!() }
    #[verifier::external_body] pub fn get(&self, i: usize) -> (r: Option<CellOutput>) ensures i < cov(self).len() ==> r == Some(cov(self)[i as int]), i >= cov(self).len() ==> r is None { unimplemented!() }
}
pub uninterp spec fn delay_len(c: &Consensus) -> u64;
impl Consensus { #[verifier::external_body] pub fn finalization_delay_length(&self) -> (r: u64) ensures r == delay_len(self) { unimplemented!() } }
