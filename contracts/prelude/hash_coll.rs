// std HashMap / HashSet as opaque types of the same names with ghost Map / Set views.  ASSUMED / spec-only text, not from /repo:
// the usual meaning of get / insert / remove / contains / extend / clone, and that iterating a set (by reference or by value)
// visits each member exactly once, in an unspecified order.
global size_of usize == 8;
#[verifier::external_body] #[verifier::reject_recursive_types(K)] #[verifier::accept_recursive_types(V)] pub struct HashMap<K, V> { _p: ::core::marker::PhantomData<(K, V)> }
#[verifier::external_body] #[verifier::reject_recursive_types(T)] pub struct HashSet<T> { _p: ::core::marker::PhantomData<T> }
impl<K, V> View for HashMap<K, V> { type V = Map<K, V>; uninterp spec fn view(&self) -> Map<K, V>; }
impl<T> View for HashSet<T> { type V = Set<T>; uninterp spec fn view(&self) -> Set<T>; }
impl<K, V> HashMap<K, V> {
    #[verifier::external_body] pub fn get(&self, k: &K) -> (r: Option<&V>) ensures r is Some <==> self@.contains_key(*k), r matches Some(v) ==> *v == self@[*k] { unimplemented!() }
    #[verifier::external_body] pub fn contains_key(&self, k: &K) -> (r: bool) ensures r == self@.contains_key(*k) { unimplemented!() }
    #[verifier::external_body] pub fn insert(&mut self, k: K, v: V) -> (r: Option<V>) ensures final(self)@ == old(self)@.insert(k, v) { unimplemented!() }
    #[verifier::external_body] pub fn remove(&mut self, k: &K) -> (r: Option<V>) ensures final(self)@ == old(self)@.remove(*k), r == (if old(self)@.contains_key(*k) { Some(old(self)@[*k]) } else { None::<V> }) { unimplemented!() }
    #[verifier::external_body] pub fn clear(&mut self) ensures final(self)@ == Map::<K, V>::empty() { unimplemented!() }
    // the entry under k, mutably: whatever the caller leaves in it is what the map holds afterwards
    #[verifier::external_body] pub fn get_mut(&mut self, k: &K) -> (r: Option<&mut V>)
        ensures match r { Some(v) => old(self)@.contains_key(*k) && *v == old(self)@[*k] && final(self)@ == old(self)@.insert(*k, *final(v)), None => !old(self)@.contains_key(*k) && final(self)@ == old(self)@ } { unimplemented!() }
}
impl<T> HashSet<T> {
    #[verifier::external_body] pub fn new() -> (r: Self) ensures r@ == Set::<T>::empty() { unimplemented!() }
    #[verifier::external_body] pub fn with_capacity(n: usize) -> (r: Self) ensures r@ == Set::<T>::empty() { unimplemented!() }
    #[verifier::external_body] pub fn len(&self) -> (r: usize) ensures r == self@.len() { unimplemented!() }
    #[verifier::external_body] pub fn is_empty(&self) -> (r: bool) ensures r == (self@ =~= Set::<T>::empty()) { unimplemented!() }
    #[verifier::external_body] pub fn contains(&self, k: &T) -> (r: bool) ensures r == self@.contains(*k) { unimplemented!() }
    #[verifier::external_body] pub fn insert(&mut self, k: T) -> (r: bool) ensures final(self)@ == old(self)@.insert(k), r == !old(self)@.contains(k) { unimplemented!() }
    #[verifier::external_body] pub fn remove(&mut self, k: &T) -> (r: bool) ensures final(self)@ == old(self)@.remove(*k), r == old(self)@.contains(*k) { unimplemented!() }
    #[verifier::external_body] pub fn extend(&mut self, o: HashSet<T>) ensures final(self)@ == old(self)@.union(o@) { unimplemented!() }
}
impl<T> Clone for HashSet<T> { #[verifier::external_body] fn clone(&self) -> (r: Self) ensures r@ == self@ { unimplemented!() } }
#[verifier::external_body] pub fn verif_cloned_set<T>(o: Option<&HashSet<T>>) -> (r: Option<HashSet<T>>)
    ensures r is Some <==> o is Some, r matches Some(s) ==> s@ == o->Some_0@ { unimplemented!() }
// ---- a HashSet visited by reference ----
#[verifier::external_body] #[verifier::accept_recursive_types(T)] pub struct SetRefIter<'a, T> { _p: ::core::marker::PhantomData<&'a T> }
pub uninterp spec fn srview<'a, T>(it: &SetRefIter<'a, T>) -> (int, Seq<&'a T>);
impl<'a, T> Iterator for SetRefIter<'a, T> { type Item = &'a T;
    #[verifier::external_body] fn next(&mut self) -> (r: Option<&'a T>)
        ensures ({ let (i0, s0) = srview(old(self)); let (i1, s1) = srview(final(self)); s1 == s0 && 0 <= i0 <= s0.len()
            && (r is None ==> i0 == s0.len() && i1 == i0) && (r matches Some(x) ==> i0 < s0.len() && i1 == i0 + 1 && x == s0[i0]) }) { unimplemented!() } }
impl<'a, T> vstd::std_specs::iter::IteratorSpecImpl for SetRefIter<'a, T> {
    open spec fn obeys_prophetic_iter_laws(&self) -> bool { true }
    #[verifier::prophetic] open spec fn remaining(&self) -> Seq<&'a T> { srview(self).1.skip(srview(self).0) }
    #[verifier::prophetic] open spec fn will_return_none(&self) -> bool { true }
    open spec fn decrease(&self) -> Option<nat> { Some((srview(self).1.len() - srview(self).0) as nat) }
    open spec fn peek(&self, index: int) -> Option<&'a T> { let r = srview(self).1.skip(srview(self).0); if 0 <= index < r.len() { Some(r[index]) } else { None } }
}
// the sequence a set iterator yields: every member, each once
pub open spec fn ref_seq_of_set<T>(q: Seq<&T>, s: Set<T>) -> bool {
    (forall|x: T| s.contains(x) <==> exists|i: int| 0 <= i < q.len() && *(#[trigger] q[i]) == x)
    && (forall|i: int, j: int| 0 <= i < j < q.len() ==> *(#[trigger] q[i]) != *(#[trigger] q[j]))
}
pub open spec fn ref_seen<T>(q: Seq<&T>, n: int, x: T) -> bool { exists|j: int| 0 <= j < n && j < q.len() && *(#[trigger] q[j]) == x }
impl<'a, T> IntoIterator for &'a HashSet<T> { type Item = &'a T; type IntoIter = SetRefIter<'a, T>;
    #[verifier::external_body] fn into_iter(self) -> (r: SetRefIter<'a, T>)
        ensures srview(&r).0 == 0, srview(&r).1.skip(0) == srview(&r).1, ref_seq_of_set(srview(&r).1, self@) { unimplemented!() } }
// ---- a HashSet consumed by value ----
#[verifier::external_body] #[verifier::accept_recursive_types(T)] pub struct SetIter<T> { _p: ::core::marker::PhantomData<T> }
pub uninterp spec fn sview<T>(it: &SetIter<T>) -> (int, Seq<T>);
impl<T> Iterator for SetIter<T> { type Item = T;
    #[verifier::external_body] fn next(&mut self) -> (r: Option<T>)
        ensures ({ let (i0, s0) = sview(old(self)); let (i1, s1) = sview(final(self)); s1 == s0 && 0 <= i0 <= s0.len()
            && (r is None ==> i0 == s0.len() && i1 == i0) && (r matches Some(x) ==> i0 < s0.len() && i1 == i0 + 1 && x == s0[i0]) }) { unimplemented!() } }
impl<T> vstd::std_specs::iter::IteratorSpecImpl for SetIter<T> {
    open spec fn obeys_prophetic_iter_laws(&self) -> bool { true }
    #[verifier::prophetic] open spec fn remaining(&self) -> Seq<T> { sview(self).1.skip(sview(self).0) }
    #[verifier::prophetic] open spec fn will_return_none(&self) -> bool { true }
    open spec fn decrease(&self) -> Option<nat> { Some((sview(self).1.len() - sview(self).0) as nat) }
    open spec fn peek(&self, index: int) -> Option<T> { let r = sview(self).1.skip(sview(self).0); if 0 <= index < r.len() { Some(r[index]) } else { None } }
}
pub open spec fn seq_of_set<T>(q: Seq<T>, s: Set<T>) -> bool {
    (forall|x: T| s.contains(x) <==> exists|i: int| 0 <= i < q.len() && #[trigger] q[i] == x)
    && (forall|i: int, j: int| 0 <= i < j < q.len() ==> #[trigger] q[i] != #[trigger] q[j])
}
pub open spec fn seen<T>(q: Seq<T>, n: int, x: T) -> bool { exists|j: int| 0 <= j < n && j < q.len() && #[trigger] q[j] == x }
impl<T> IntoIterator for HashSet<T> { type Item = T; type IntoIter = SetIter<T>;
    #[verifier::external_body] fn into_iter(self) -> (r: SetIter<T>)
        ensures sview(&r).0 == 0, sview(&r).1.skip(0) == sview(&r).1, seq_of_set(sview(&r).1, self@) { unimplemented!() } }
