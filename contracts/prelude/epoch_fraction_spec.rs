// ---------- specification of the packed epoch field (RFC: number 24 bits | index 16 bits | length 16 bits) ----------
pub open spec fn e_num(v: u64) -> u64 { v & 0xffffff }
pub open spec fn e_idx(v: u64) -> u64 { (v >> 24) & 0xffff }
pub open spec fn e_len(v: u64) -> u64 { (v >> 40) & 0xffff }
pub open spec fn e_wf(v: u64) -> bool { e_len(v) > 0 && e_idx(v) < e_len(v) }
pub open spec fn e_genesis(v: u64) -> bool { e_num(v) == 0 && e_idx(v) == 0 && e_len(v) == 0 }
// "consecutive blocks' epoch fields form a gap-free sequence": s is the field of the block right after p's block
pub open spec fn e_succ(s: u64, p: u64) -> bool {
    if e_idx(p) + 1 == e_len(p) { e_num(s) == e_num(p) + 1 && e_idx(s) == 0 }
    else { e_num(s) == e_num(p) && e_idx(s) == e_idx(p) + 1 && e_len(s) == e_len(p) }
}
pub open spec fn e_pack(n: u64, i: u64, l: u64) -> u64 { (l << 40) | (i << 24) | n }
pub proof fn lemma_pack_unpack(n: u64, i: u64, l: u64)
    requires n < 0x1000000, i < 0x10000, l < 0x10000
    ensures e_num(e_pack(n, i, l)) == n, e_idx(e_pack(n, i, l)) == i, e_len(e_pack(n, i, l)) == l,
{
    assert(n < 0x1000000 && i < 0x10000 && l < 0x10000 ==> (((l << 40) | (i << 24) | n) & 0xffffff) == n) by(bit_vector);
    assert(n < 0x1000000 && i < 0x10000 && l < 0x10000 ==> ((((l << 40) | (i << 24) | n) >> 24) & 0xffff) == i) by(bit_vector);
    assert(n < 0x1000000 && i < 0x10000 && l < 0x10000 ==> ((((l << 40) | (i << 24) | n) >> 40) & 0xffff) == l) by(bit_vector);
}
pub proof fn lemma_fields_bounded(v: u64)
    ensures e_num(v) < 0x1000000, e_idx(v) < 0x10000, e_len(v) < 0x10000
{
    assert(v & 0xffffff < 0x1000000) by(bit_vector);
    assert((v >> 24) & 0xffff < 0x10000) by(bit_vector);
    assert((v >> 40) & 0xffff < 0x10000) by(bit_vector);
}

// constants of the form 1u64 << N used by packed-field masks (rustc evaluates them; the SMT solver needs the values)
pub mod shl_lemmas {
    use vstd::prelude::*;
    pub broadcast proof fn lemma_shl_one(b: usize)
        ensures b == 24 ==> #[trigger] (1u64 << b) == 0x1000000u64, b == 16 ==> (1u64 << b) == 0x10000u64,
    { assert((1u64 << 24usize) == 0x1000000u64) by(bit_vector); assert((1u64 << 16usize) == 0x10000u64) by(bit_vector); }
    pub broadcast proof fn lemma_shl_one_i32(b: i32)
        ensures b == 63 ==> #[trigger] (1u64 << b) == 0x8000_0000_0000_0000u64,
    { assert((1u64 << 63i32) == 0x8000_0000_0000_0000u64) by(bit_vector); }
    pub broadcast group shl_group { lemma_shl_one, lemma_shl_one_i32 }
}
broadcast use shl_lemmas::shl_group;
// the order the property names: n + i/l as a rational, compared by cross-multiplication
pub open spec fn e_cmp(a: u64, b: u64) -> Ordering {
    if e_num(a) < e_num(b) { Ordering::Less } else if e_num(a) > e_num(b) { Ordering::Greater }
    else if e_idx(a) * e_len(b) < e_idx(b) * e_len(a) { Ordering::Less }
    else if e_idx(a) * e_len(b) > e_idx(b) * e_len(a) { Ordering::Greater } else { Ordering::Equal }
}
