// ASSUMED std specifications missing from vstd (the usual meaning of the accessor)
pub assume_specification<T, A: std::alloc::Allocator> [std::collections::VecDeque::<T, A>::is_empty] (v: &std::collections::VecDeque<T, A>) -> (r: bool)
    ensures r == (v@.len() == 0);
pub assume_specification<T, A: std::alloc::Allocator> [std::collections::VecDeque::<T, A>::front] (v: &std::collections::VecDeque<T, A>) -> (r: Option<&T>)
    ensures v@.len() == 0 ==> r is None, v@.len() > 0 ==> r == Some(&v@[0]);
pub assume_specification<T, A: std::alloc::Allocator> [std::collections::VecDeque::<T, A>::back] (v: &std::collections::VecDeque<T, A>) -> (r: Option<&T>)
    ensures v@.len() == 0 ==> r is None, v@.len() > 0 ==> r == Some(&v@[v@.len() - 1]);
// `for x in &deque` goes through IntoIterator for &VecDeque, for which vstd has no specification: it yields the elements
// front to back, then None (vstd's prophetic iterator laws for vec_deque::Iter are used as they are)
pub assume_specification<'a, T, A: std::alloc::Allocator> [<&'a std::collections::VecDeque<T, A> as IntoIterator>::into_iter] (v: &'a std::collections::VecDeque<T, A>) -> (r: std::collections::vec_deque::Iter<'a, T>)
    ensures
        vstd::std_specs::iter::IteratorSpec::remaining(&r).len() == v@.len(),
        forall|i: int| 0 <= i < v@.len() ==> *#[trigger] vstd::std_specs::iter::IteratorSpec::remaining(&r)[i] == v@[i],
        vstd::std_specs::iter::IteratorSpec::will_return_none(&r),
        vstd::std_specs::iter::IteratorSpec::obeys_prophetic_iter_laws(&r),
        vstd::std_specs::iter::IteratorSpec::decrease(&r) is Some;
