// ASSUMED std specifications missing from vstd (the usual meaning of the accessor)
pub assume_specification<T, A: std::alloc::Allocator> [std::collections::VecDeque::<T, A>::is_empty] (v: &std::collections::VecDeque<T, A>) -> (r: bool)
    ensures r == (v@.len() == 0);
pub assume_specification<T, A: std::alloc::Allocator> [std::collections::VecDeque::<T, A>::front] (v: &std::collections::VecDeque<T, A>) -> (r: Option<&T>)
    ensures v@.len() == 0 ==> r is None, v@.len() > 0 ==> r == Some(&v@[0]);
pub assume_specification<T, A: std::alloc::Allocator> [std::collections::VecDeque::<T, A>::back] (v: &std::collections::VecDeque<T, A>) -> (r: Option<&T>)
    ensures v@.len() == 0 ==> r is None, v@.len() > 0 ==> r == Some(&v@[v@.len() - 1]);
