// Shared model of the store's write side (units c02_store_txn, c02_cells, c02_rollback): the key-value content of a RocksDB
// transaction as a ghost map, opaque packed values with ghost encoders, and the left folds the contracts are stated with.
// ASSUMED / spec-only text, not from /repo.
global size_of usize == 8;
pub type Col = &'static str;
pub type KV = Map<(Seq<char>, Seq<u8>), Seq<u8>>;
#[verifier::external_body] pub struct Error { _x: u64 }
#[verifier::external_body] pub struct RocksDBTransaction { _x: u64 }
pub uninterp spec fn rkv(t: &RocksDBTransaction) -> KV;
impl RocksDBTransaction {
    #[verifier::external_body] pub fn put(&mut self, col: Col, key: &[u8], value: &[u8]) -> (r: Result<(), Error>)
        ensures r is Ok ==> rkv(final(self)) == rkv(old(self)).insert((col@, key@), value@) { unimplemented!() }
    #[verifier::external_body] pub fn delete(&mut self, col: Col, key: &[u8]) -> (r: Result<(), Error>)
        ensures r is Ok ==> rkv(final(self)) == rkv(old(self)).remove((col@, key@)) { unimplemented!() }
}
pub open spec fn kv(t: &StoreTransaction) -> KV { rkv(&t.inner) }

// ---- opaque block / packed values ----
#[verifier::external_body] pub struct BlockView { _x: u64 }
#[verifier::external_body] pub struct PackedBlock { _x: u64 }
#[verifier::external_body] pub struct PackedHeader { _x: u64 }
#[verifier::external_body] pub struct PackedRawHeader { _x: u64 }
#[verifier::external_body] pub struct PackedHeaderView { _x: u64 }
#[verifier::external_body] pub struct HeaderView { _x: u64 }
#[verifier::external_body] pub struct PUint64 { _x: u64 }
#[verifier::external_body] pub struct UncleBlockVecView { _x: u64 }
#[verifier::external_body] pub struct UncleBlockView { _x: u64 }
#[verifier::external_body] pub struct TransactionKey { _x: u64 }
#[verifier::external_body] pub struct TransactionKeyBuilder { _x: u64 }
#[verifier::external_body] pub struct TransactionInfo { _x: u64 }
#[verifier::external_body] pub struct TransactionInfoBuilder { _x: u64 }
#[verifier::external_body] pub struct Byte32 { _b: [u8; 32] }
impl Clone for Byte32 { #[verifier::external_body] fn clone(&self) -> (r: Self) ensures r == *self { unimplemented!() } }
#[verifier::external_body] pub struct PackedBytes { _x: u64 }
impl Clone for PackedBytes { #[verifier::external_body] fn clone(&self) -> (r: Self) ensures r == *self { unimplemented!() } }
#[verifier::external_body] pub struct HeaderDigest { _x: u64 }
pub uninterp spec fn hd_bytes(d: &HeaderDigest) -> Seq<u8>;
impl HeaderDigest { #[verifier::external_body] pub fn as_slice(&self) -> (r: &[u8]) ensures r@ == hd_bytes(self) { unimplemented!() } }
pub mod packed { pub use super::{HeaderDigest, PackedBytes as Bytes, Byte32, TransactionKey, TransactionInfo, PUint64 as Uint64, PackedHeaderView as HeaderView, OutPoint, CellEntry, CellDataEntry, CellOutput, CellEntryBuilder, CellDataEntryBuilder}; }
pub uninterp spec fn b32(b: &Byte32) -> Seq<u8>;
pub uninterp spec fn pu64_bytes(p: &PUint64) -> Seq<u8>;
pub uninterp spec fn u64_le(n: u64) -> Seq<u8>;                       // little-endian 8 bytes
pub uninterp spec fn bv_hash(b: &BlockView) -> Byte32;
pub uninterp spec fn bv_number(b: &BlockView) -> u64;
pub uninterp spec fn bv_raw_number(b: &BlockView) -> Seq<u8>;           // the number field of the packed raw header
pub uninterp spec fn bv_raw_epoch(b: &BlockView) -> Seq<u8>;
// ASSUMED: BlockView::number() is the little-endian value of the raw header's number field
#[verifier::external_body] pub broadcast proof fn ax_raw_number(b: &BlockView) ensures #[trigger] bv_raw_number(b) == u64_le(bv_number(b)) {}
pub uninterp spec fn bv_tx_hashes(b: &BlockView) -> Seq<Byte32>;
pub uninterp spec fn bv_uncles(b: &BlockView) -> Seq<UncleBlockView>;
pub uninterp spec fn un_hash(u: &UncleBlockView) -> Byte32;
pub uninterp spec fn un_header_bytes(u: &UncleBlockView) -> Seq<u8>;    // packed::HeaderView of the uncle's header
pub uninterp spec fn txkey_v(block_hash: Byte32, index: u32) -> TransactionKey;
pub uninterp spec fn txinfo_bytes(key: TransactionKey, number: Seq<u8>, epoch: Seq<u8>) -> Seq<u8>;
pub uninterp spec fn pb_raw_number(p: &PackedBlock) -> Seq<u8>;
pub uninterp spec fn pb_raw_epoch(p: &PackedBlock) -> Seq<u8>;
pub uninterp spec fn ph_raw_number(p: &PackedHeader) -> Seq<u8>;
pub uninterp spec fn ph_raw_epoch(p: &PackedHeader) -> Seq<u8>;
pub uninterp spec fn prh_number(p: &PackedRawHeader) -> Seq<u8>;
pub uninterp spec fn prh_epoch(p: &PackedRawHeader) -> Seq<u8>;
pub uninterp spec fn hv_packed_bytes(h: &HeaderView) -> Seq<u8>;
pub uninterp spec fn phv_bytes(h: &PackedHeaderView) -> Seq<u8>;
pub uninterp spec fn uv(v: &UncleBlockVecView) -> Seq<UncleBlockView>;
pub uninterp spec fn un_header(u: &UncleBlockView) -> HeaderView;
pub uninterp spec fn tkb(b: &TransactionKeyBuilder) -> (Byte32, u32);
pub uninterp spec fn tib(b: &TransactionInfoBuilder) -> (TransactionKey, Seq<u8>, Seq<u8>);
pub uninterp spec fn ti_bytes(t: &TransactionInfo) -> Seq<u8>;
impl Byte32 { #[verifier::external_body] pub fn as_slice(&self) -> (r: &[u8]) ensures r@ == b32(self) { unimplemented!() } }
impl PUint64 { #[verifier::external_body] pub fn as_slice(&self) -> (r: &[u8]) ensures r@ == pu64_bytes(self) { unimplemented!() } }
impl From<u64> for PUint64 { #[verifier::external_body] fn from(n: u64) -> (r: PUint64) ensures pu64_bytes(&r) == u64_le(n) { unimplemented!() } }
impl BlockView {
    #[verifier::external_body] pub fn data(&self) -> (r: PackedBlock) ensures pb_raw_number(&r) == bv_raw_number(self), pb_raw_epoch(&r) == bv_raw_epoch(self) { unimplemented!() }
    #[verifier::external_body] pub fn hash(&self) -> (r: Byte32) ensures r == bv_hash(self) { unimplemented!() }
    #[verifier::external_body] pub fn number(&self) -> (r: u64) ensures r == bv_number(self) { unimplemented!() }
    #[verifier::external_body] pub fn tx_hashes(&self) -> (r: &[Byte32]) ensures r@ == bv_tx_hashes(self) { unimplemented!() }
    #[verifier::external_body] pub fn uncles(&self) -> (r: UncleBlockVecView) ensures uv(&r) == bv_uncles(self) { unimplemented!() }
}
impl PackedBlock { #[verifier::external_body] pub fn header(&self) -> (r: PackedHeader) ensures ph_raw_number(&r) == pb_raw_number(self), ph_raw_epoch(&r) == pb_raw_epoch(self) { unimplemented!() } }
impl PackedHeader { #[verifier::external_body] pub fn raw(&self) -> (r: PackedRawHeader) ensures prh_number(&r) == ph_raw_number(self), prh_epoch(&r) == ph_raw_epoch(self) { unimplemented!() } }
impl PackedRawHeader {
    #[verifier::external_body] pub fn number(&self) -> (r: PUint64) ensures pu64_bytes(&r) == prh_number(self) { unimplemented!() }
    #[verifier::external_body] pub fn epoch(&self) -> (r: PUint64) ensures pu64_bytes(&r) == prh_epoch(self) { unimplemented!() }
}
impl UncleBlockVecView { #[verifier::external_body] pub fn into_iter(self) -> (r: OIter<UncleBlockView>) ensures oview(&r) == (0int, uv(&self)) { unimplemented!() } }
impl UncleBlockView {
    #[verifier::external_body] pub fn hash(&self) -> (r: Byte32) ensures r == un_hash(self) { unimplemented!() }
    #[verifier::external_body] pub fn header(&self) -> (r: HeaderView) ensures hv_packed_bytes(&r) == un_header_bytes(self) { unimplemented!() }
}
impl From<HeaderView> for PackedHeaderView { #[verifier::external_body] fn from(h: HeaderView) -> (r: PackedHeaderView) ensures phv_bytes(&r) == hv_packed_bytes(&h) { unimplemented!() } }
impl PackedHeaderView { #[verifier::external_body] pub fn as_slice(&self) -> (r: &[u8]) ensures r@ == phv_bytes(self) { unimplemented!() } }
impl TransactionKey { #[verifier::external_body] pub fn new_builder() -> (r: TransactionKeyBuilder) { unimplemented!() } }
impl TransactionKeyBuilder {
    #[verifier::external_body] pub fn block_hash(self, h: Byte32) -> (r: Self) ensures tkb(&r) == (h, tkb(&self).1) { unimplemented!() }
    #[verifier::external_body] pub fn index(self, i: usize) -> (r: Self) ensures tkb(&r) == (tkb(&self).0, i as u32) { unimplemented!() }
    #[verifier::external_body] pub fn build(&self) -> (r: TransactionKey) ensures r == txkey_v(tkb(self).0, tkb(self).1) { unimplemented!() }
}
impl TransactionInfo {
    #[verifier::external_body] pub fn new_builder() -> (r: TransactionInfoBuilder) { unimplemented!() }
    #[verifier::external_body] pub fn as_slice(&self) -> (r: &[u8]) ensures r@ == ti_bytes(self) { unimplemented!() }
}
impl TransactionInfoBuilder {
    #[verifier::external_body] pub fn key(self, k: TransactionKey) -> (r: Self) ensures tib(&r) == (k, tib(&self).1, tib(&self).2) { unimplemented!() }
    #[verifier::external_body] pub fn block_number(self, n: PUint64) -> (r: Self) ensures tib(&r) == (tib(&self).0, pu64_bytes(&n), tib(&self).2) { unimplemented!() }
    #[verifier::external_body] pub fn block_epoch(self, e: PUint64) -> (r: Self) ensures tib(&r) == (tib(&self).0, tib(&self).1, pu64_bytes(&e)) { unimplemented!() }
    #[verifier::external_body] pub fn build(&self) -> (r: TransactionInfo) ensures ti_bytes(&r) == txinfo_bytes(tib(self).0, tib(self).1, tib(self).2) { unimplemented!() }
}
// transformation 15: stands for `block.tx_hashes().iter().enumerate()`
#[verifier::external_body] pub fn verif_enumerated<'a>(s: &'a [Byte32]) -> (r: OIter<(usize, &'a Byte32)>)
    ensures oview(&r).0 == 0, oview(&r).1.len() == s@.len(), forall|i: int| 0 <= i < s@.len() ==> (#[trigger] oview(&r).1[i]).0 == i && *oview(&r).1[i].1 == s@[i] { unimplemented!() }

// ---- cells ----
// the items an iterator argument yields, in order (ASSUMED: a `for` loop over it visits exactly these)
pub uninterp spec fn yields<I: Iterator>(i: &I) -> Seq<I::Item>;
#[verifier::external_body] pub fn verif_drain<I: Iterator>(i: I) -> (r: OIter<I::Item>) ensures oview(&r) == (0int, yields(&i)) { unimplemented!() }
#[verifier::external_body] pub struct OutPoint { _x: u64 }
#[verifier::external_body] pub struct CellEntry { _x: u64 }
#[verifier::external_body] pub struct CellDataEntry { _x: u64 }
pub uninterp spec fn cell_key(o: &OutPoint) -> Seq<u8>;
pub uninterp spec fn ce_bytes(c: &CellEntry) -> Seq<u8>;
pub uninterp spec fn cde_bytes(c: &CellDataEntry) -> Seq<u8>;
pub uninterp spec fn cde_hash(c: &CellDataEntry) -> Byte32;
impl OutPoint { #[verifier::external_body] pub fn to_cell_key(&self) -> (r: Vec<u8>) ensures r@ == cell_key(self) { unimplemented!() } }
impl CellEntry { #[verifier::external_body] pub fn as_slice(&self) -> (r: &[u8]) ensures r@ == ce_bytes(self) { unimplemented!() } }
impl CellDataEntry {
    #[verifier::external_body] pub fn as_slice(&self) -> (r: &[u8]) ensures r@ == cde_bytes(self) { unimplemented!() }
    #[verifier::external_body] pub fn output_data_hash(&self) -> (r: Byte32) ensures r == cde_hash(self) { unimplemented!() }
}

// ---- what the steps do to the key-value content (left folds, in program order) ----
pub open spec fn txinfo_at(b: &BlockView, i: int) -> Seq<u8> { txinfo_bytes(txkey_v(bv_hash(b), i as usize as u32), bv_raw_number(b), bv_raw_epoch(b)) }
pub open spec fn put_txinfos(m: KV, b: &BlockView, n: int) -> KV decreases n {
    if n <= 0 { m } else { put_txinfos(m, b, n - 1).insert((COLUMN_TRANSACTION_INFO@, b32(&bv_tx_hashes(b)[n - 1])), txinfo_at(b, n - 1)) }
}
pub open spec fn put_uncles(m: KV, b: &BlockView, n: int) -> KV decreases n {
    if n <= 0 { m } else { put_uncles(m, b, n - 1).insert((COLUMN_UNCLES@, b32(&un_hash(&bv_uncles(b)[n - 1]))), un_header_bytes(&bv_uncles(b)[n - 1])) }
}
pub open spec fn attach_kv(m: KV, b: &BlockView) -> KV {
    put_uncles(put_txinfos(m, b, bv_tx_hashes(b).len() as int).insert((COLUMN_INDEX@, u64_le(bv_number(b))), b32(&bv_hash(b))), b, bv_uncles(b).len() as int)
        .insert((COLUMN_INDEX@, b32(&bv_hash(b))), u64_le(bv_number(b)))
}
pub open spec fn del_txinfos(m: KV, b: &BlockView, n: int) -> KV decreases n {
    if n <= 0 { m } else { del_txinfos(m, b, n - 1).remove((COLUMN_TRANSACTION_INFO@, b32(&bv_tx_hashes(b)[n - 1]))) }
}
pub open spec fn del_uncles(m: KV, b: &BlockView, n: int) -> KV decreases n {
    if n <= 0 { m } else { del_uncles(m, b, n - 1).remove((COLUMN_UNCLES@, b32(&un_hash(&bv_uncles(b)[n - 1])))) }
}
pub open spec fn detach_kv(m: KV, b: &BlockView) -> KV {
    del_uncles(del_txinfos(m, b, bv_tx_hashes(b).len() as int), b, bv_uncles(b).len() as int)
        .remove((COLUMN_INDEX@, bv_raw_number(b))).remove((COLUMN_INDEX@, b32(&bv_hash(b))))
}
pub open spec fn put_cell(m: KV, c: (OutPoint, CellEntry, Option<CellDataEntry>)) -> KV {
    let k = cell_key(&c.0);
    let m1 = m.insert((COLUMN_CELL@, k), ce_bytes(&c.1));
    match c.2 {
        Some(d) => m1.insert((COLUMN_CELL_DATA@, k), cde_bytes(&d)).insert((COLUMN_CELL_DATA_HASH@, k), b32(&cde_hash(&d))),
        None => m1.insert((COLUMN_CELL_DATA@, k), Seq::<u8>::empty()).insert((COLUMN_CELL_DATA_HASH@, k), Seq::<u8>::empty()),
    }
}
pub open spec fn put_cells(m: KV, cs: Seq<(OutPoint, CellEntry, Option<CellDataEntry>)>, n: int) -> KV decreases n {
    if n <= 0 { m } else { put_cell(put_cells(m, cs, n - 1), cs[n - 1]) }
}
pub open spec fn del_cell(m: KV, o: OutPoint) -> KV {
    let k = cell_key(&o);
    m.remove((COLUMN_CELL@, k)).remove((COLUMN_CELL_DATA@, k)).remove((COLUMN_CELL_DATA_HASH@, k))
}
pub open spec fn del_cells(m: KV, os: Seq<OutPoint>, n: int) -> KV decreases n {
    if n <= 0 { m } else { del_cell(del_cells(m, os, n - 1), os[n - 1]) }
}
// the keys a block's index step owns
pub open spec fn is_block_key(b: &BlockView, k: (Seq<char>, Seq<u8>)) -> bool {
    (exists|i: int| 0 <= i < bv_tx_hashes(b).len() && k == (COLUMN_TRANSACTION_INFO@, b32(&#[trigger] bv_tx_hashes(b)[i])))
    || (exists|j: int| 0 <= j < bv_uncles(b).len() && k == (COLUMN_UNCLES@, b32(&un_hash(&#[trigger] bv_uncles(b)[j]))))
    || k == (COLUMN_INDEX@, u64_le(bv_number(b))) || k == (COLUMN_INDEX@, b32(&bv_hash(b)))
}


// further accessors of the opaque block (so that code which reads the detached block where it should read the creating
// transaction's location type-checks and is refuted rather than left undecided)
pub uninterp spec fn bv_header(b: &BlockView) -> HeaderView;
pub uninterp spec fn hv_epoch(h: &HeaderView) -> EpochNumberWithFraction;
pub uninterp spec fn hv_number(h: &HeaderView) -> u64;
pub uninterp spec fn hv_hash(h: &HeaderView) -> Byte32;
impl BlockView {
    #[verifier::external_body] pub fn header(&self) -> (r: HeaderView) ensures r == bv_header(self) { unimplemented!() }
    #[verifier::external_body] pub fn epoch(&self) -> (r: EpochNumberWithFraction) ensures r == hv_epoch(&bv_header(self)) { unimplemented!() }
}
impl HeaderView {
    #[verifier::external_body] pub fn epoch(&self) -> (r: EpochNumberWithFraction) ensures r == hv_epoch(self) { unimplemented!() }
    #[verifier::external_body] pub fn number(&self) -> (r: u64) ensures r == hv_number(self) { unimplemented!() }
    #[verifier::external_body] pub fn hash(&self) -> (r: Byte32) ensures r == hv_hash(self) { unimplemented!() }
}
// ---- cell records (unit c02_cells) ----
#[verifier::external_body] pub struct TransactionView { _x: u64 }
#[verifier::external_body] pub struct Bytes { _x: u64 }
#[verifier::external_body] pub struct CellOutput { _x: u64 }
#[verifier::external_body] pub struct EpochNumberWithFraction { _x: u64 }
#[verifier::external_body] pub struct OutPointBuilder { _x: u64 }
#[verifier::external_body] pub struct CellEntryBuilder { _x: u64 }
#[verifier::external_body] pub struct CellDataEntryBuilder { _x: u64 }
pub uninterp spec fn by(b: &Bytes) -> Seq<u8>;
pub uninterp spec fn data_hash(d: Seq<u8>) -> Byte32;
pub uninterp spec fn outpoint_v(tx_hash: Byte32, index: u32) -> OutPoint;
pub uninterp spec fn cell_entry_v(output: CellOutput, block_hash: Byte32, number: u64, epoch: EpochNumberWithFraction, tx_index: u32, data_size: u64) -> CellEntry;
pub uninterp spec fn cde_v(data: Seq<u8>, hash: Byte32) -> CellDataEntry;
pub uninterp spec fn opb(b: &OutPointBuilder) -> (Byte32, u32);
pub uninterp spec fn ceb(b: &CellEntryBuilder) -> (CellOutput, Byte32, u64, EpochNumberWithFraction, u32, u64);
pub uninterp spec fn cdb(b: &CellDataEntryBuilder) -> (Seq<u8>, Byte32);
pub trait AsU32 { spec fn as_u32(&self) -> u32; }
impl AsU32 for usize { open spec fn as_u32(&self) -> u32 { *self as u32 } }
impl<'a> AsU32 for &'a usize { open spec fn as_u32(&self) -> u32 { **self as u32 } }
impl Bytes {
    #[verifier::external_body] pub fn len(&self) -> (r: usize) ensures r == by(self).len() { unimplemented!() }
    #[verifier::external_body] pub fn is_empty(&self) -> (r: bool) ensures r == (by(self).len() == 0) { unimplemented!() }
}
impl CellOutput { #[verifier::external_body] pub fn calc_data_hash(d: &Bytes) -> (r: Byte32) ensures r == data_hash(by(d)) { unimplemented!() } }
impl OutPoint { #[verifier::external_body] pub fn new_builder() -> (r: OutPointBuilder) { unimplemented!() } }
impl OutPointBuilder {
    #[verifier::external_body] pub fn tx_hash(self, h: Byte32) -> (r: Self) ensures opb(&r) == (h, opb(&self).1) { unimplemented!() }
    #[verifier::external_body] pub fn index<T: AsU32>(self, i: T) -> (r: Self) ensures opb(&r) == (opb(&self).0, i.as_u32()) { unimplemented!() }
    #[verifier::external_body] pub fn build(&self) -> (r: OutPoint) ensures r == outpoint_v(opb(self).0, opb(self).1) { unimplemented!() }
}
impl CellEntryBuilder {
    #[verifier::external_body] pub fn default() -> (r: Self) { unimplemented!() }
    #[verifier::external_body] pub fn output(self, o: CellOutput) -> (r: Self) ensures ceb(&r) == (o, ceb(&self).1, ceb(&self).2, ceb(&self).3, ceb(&self).4, ceb(&self).5) { unimplemented!() }
    #[verifier::external_body] pub fn block_hash(self, h: Byte32) -> (r: Self) ensures ceb(&r) == (ceb(&self).0, h, ceb(&self).2, ceb(&self).3, ceb(&self).4, ceb(&self).5) { unimplemented!() }
    #[verifier::external_body] pub fn block_number(self, n: u64) -> (r: Self) ensures ceb(&r) == (ceb(&self).0, ceb(&self).1, n, ceb(&self).3, ceb(&self).4, ceb(&self).5) { unimplemented!() }
    #[verifier::external_body] pub fn block_epoch(self, e: EpochNumberWithFraction) -> (r: Self) ensures ceb(&r) == (ceb(&self).0, ceb(&self).1, ceb(&self).2, e, ceb(&self).4, ceb(&self).5) { unimplemented!() }
    #[verifier::external_body] pub fn index<T: AsU32>(self, i: T) -> (r: Self) ensures ceb(&r) == (ceb(&self).0, ceb(&self).1, ceb(&self).2, ceb(&self).3, i.as_u32(), ceb(&self).5) { unimplemented!() }
    #[verifier::external_body] pub fn data_size(self, n: u64) -> (r: Self) ensures ceb(&r) == (ceb(&self).0, ceb(&self).1, ceb(&self).2, ceb(&self).3, ceb(&self).4, n) { unimplemented!() }
    #[verifier::external_body] pub fn build(&self) -> (r: CellEntry) ensures r == cell_entry_v(ceb(self).0, ceb(self).1, ceb(self).2, ceb(self).3, ceb(self).4, ceb(self).5) { unimplemented!() }
}
impl CellDataEntryBuilder {
    #[verifier::external_body] pub fn default() -> (r: Self) { unimplemented!() }
    #[verifier::external_body] pub fn output_data(self, d: Bytes) -> (r: Self) ensures cdb(&r) == (by(&d), cdb(&self).1) { unimplemented!() }
    #[verifier::external_body] pub fn output_data_hash(self, h: Byte32) -> (r: Self) ensures cdb(&r) == (cdb(&self).0, h) { unimplemented!() }
    #[verifier::external_body] pub fn build(&self) -> (r: CellDataEntry) ensures r == cde_v(cdb(self).0, cdb(self).1) { unimplemented!() }
}
// the record of one cell, as the property lists it: output, creating block (hash, number, epoch), position, data, data hash
pub open spec fn cell_record(tx_hash: Byte32, index: u32, output: CellOutput, block_hash: Byte32, number: u64, epoch: EpochNumberWithFraction, tx_index: u32, data: Seq<u8>)
    -> (OutPoint, CellEntry, Option<CellDataEntry>) {
    (outpoint_v(tx_hash, index), cell_entry_v(output, block_hash, number, epoch, tx_index, data.len() as u64),
     if data.len() == 0 { None } else { Some(cde_v(data, data_hash(data))) })
}
// ---- attach_block_cell: the two abstracted iterator expressions ----
#[verifier::external_body] pub struct TxVec { _x: u64 }
pub uninterp spec fn new_cells_of(b: &BlockView) -> Seq<(OutPoint, CellEntry, Option<CellDataEntry>)>;
pub uninterp spec fn dead_pts_of(b: &BlockView) -> Seq<OutPoint>;
pub uninterp spec fn txs_of(v: &TxVec) -> BlockView;
impl BlockView { #[verifier::external_body] pub fn transactions(&self) -> (r: TxVec) ensures txs_of(&r) == *self { unimplemented!() } }
#[verifier::external_body] pub fn verif_new_cells(t: &TxVec, b: &BlockView) -> (r: OIter<(OutPoint, CellEntry, Option<CellDataEntry>)>)
    ensures yields(&r) == new_cells_of(b) { unimplemented!() }
#[verifier::external_body] pub fn verif_dead_pts(t: &TxVec) -> (r: OIter<OutPoint>)
    ensures yields(&r) == dead_pts_of(&txs_of(t)) { unimplemented!() }
