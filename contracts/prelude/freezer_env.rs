// ================= ASSUMED: foreign-crate / std types the freezer holds but whose state no contract mentions ============
#[verifier::external_body] #[verifier::reject_recursive_types(K)] #[verifier::reject_recursive_types(V)] pub struct LruCache<K, V> { _k: ::core::marker::PhantomData<(K, V)> }
// the directory whose data files the handle cache holds (ghost representation invariant, see FreezerFiles::cache_ok)
pub uninterp spec fn cache_base<K, V>(c: &LruCache<K, V>) -> int;
impl<K, V> LruCache<K, V> {
    #[verifier::external_body] pub fn new(cap: usize) -> (r: Self) { unimplemented!() }
}
impl LruCache<FileId, File> {
    // ASSUMED: a cached handle for id k is open on data file k of the cache's directory and shows that file's current content
    #[verifier::external_body] pub fn get(&mut self, k: &FileId) -> (r: Option<&File>)
        ensures cache_base(final(self)) == cache_base(old(self)),
            r matches Some(f) ==> fview(f).id == dfile(cache_base(old(self)), *k) && fview(f).data == disk(fview(f).id),
    { unimplemented!() }
    #[verifier::external_body] pub fn put(&mut self, k: FileId, v: File) -> (r: Option<File>)
        ensures cache_base(final(self)) == cache_base(old(self)),
    { unimplemented!() }
    #[verifier::external_body] pub fn pop(&mut self, k: &FileId) -> (r: Option<File>)
        ensures cache_base(final(self)) == cache_base(old(self)),
    { unimplemented!() }
}
// the item counter: an Arc<AtomicU64> mutated through &self -- NOT modelled (DESIGN.md C09 "stated gap"); only its
// initial value is visible to contracts
#[verifier::external_body] pub struct AtomicU64 { _x: u64 }
pub enum Ordering { SeqCst }
pub uninterp spec fn counter_init(a: &AtomicU64) -> u64;
impl AtomicU64 {
    #[verifier::external_body] pub fn new(v: u64) -> (r: AtomicU64) ensures counter_init(&r) == v { unimplemented!() }
    #[verifier::external_body] pub fn load(&self, o: Ordering) -> (r: u64) ensures r == counter_init(self) { unimplemented!() }
    #[verifier::external_body] pub fn fetch_add(&self, v: u64, o: Ordering) -> (r: u64) { unimplemented!() }
    #[verifier::external_body] pub fn store(&self, v: u64, o: Ordering) { unimplemented!() }
}
#[verifier::external_body] pub struct SnappyEncoder { _x: u64 }
#[verifier::external_body] pub struct SnappyDecoder { _x: u64 }
#[verifier::external_body] pub struct SnapError { _x: u64 }
pub uninterp spec fn snappy(d: Seq<u8>) -> Seq<u8>;
pub uninterp spec fn unsnappy(d: Seq<u8>) -> Seq<u8>;
impl SnappyDecoder {
    #[verifier::external_body] pub fn new() -> SnappyDecoder { unimplemented!() }
    #[verifier::external_body] pub fn decompress_vec(&mut self, d: &[u8]) -> (r: Result<Vec<u8>, SnapError>)
        ensures r is Ok ==> r->Ok_0@ == unsnappy(d@) { unimplemented!() }
}
impl SnappyEncoder {
    #[verifier::external_body] pub fn new() -> SnappyEncoder { unimplemented!() }
    #[verifier::external_body] pub fn compress_vec(&mut self, d: &[u8]) -> (r: Result<Vec<u8>, SnapError>)
        ensures r is Ok ==> r->Ok_0@ == snappy(d@) { unimplemented!() }
}

// ================= specification of the on-disk index format (12-byte little-endian records) =================
pub open spec fn byte_of(v: u64, i: int) -> u8 { ((v >> ((8 * i) as u64)) & 0xff) as u8 }
pub closed spec fn enc_spec(fid: u32, off: u64) -> Seq<u8> {
    Seq::new(12, |i: int| if i < 4 { byte_of(fid as u64, i) } else { byte_of(off, i - 4) })
}
pub open spec fn le_val(s: Seq<u8>, lo: int, n: int) -> u64
    decreases n
{
    if n <= 0 { 0 } else { (s[lo] as u64 + 256 * le_val(s, lo + 1, n - 1)) as u64 }
}
pub uninterp spec fn dec_fid(s: Seq<u8>) -> u32;
pub uninterp spec fn dec_off(s: Seq<u8>) -> u64;
// the two facts about the codec the freezer proofs use; both are PROVED for the real IndexEntry::{encode,decode} by the
// Kani unit c09_index_entry (round trip over the full u32 x u64 domain; encode always yields 12 bytes)
#[verifier::external_body]
pub broadcast proof fn axiom_codec(fid: u32, off: u64)
    ensures (#[trigger] enc_spec(fid, off)).len() == 12,
        dec_fid(enc_spec(fid, off)) == fid, dec_off(enc_spec(fid, off)) == off,
{}
pub open spec fn entry_fid(idx: Seq<u8>, j: int) -> u32 { dec_fid(idx.subrange(12 * j, 12 * j + 12)) }
pub open spec fn entry_off(idx: Seq<u8>, j: int) -> u64 { dec_off(idx.subrange(12 * j, 12 * j + 12)) }
// identity of the data file with id `k` under base directory `base`
pub uninterp spec fn fname(id: u32) -> int;
pub open spec fn dfile(base: int, k: u32) -> int { pjoin(base, fname(k)) }
// "all data of item j is on disk"
pub open spec fn present(base: int, idx: Seq<u8>, j: int) -> bool {
    disk(dfile(base, entry_fid(idx, j))).len() >= entry_off(idx, j)
}
pub uninterp spec fn index_name() -> int;
#[verifier::external_body]
pub proof fn axiom_names()
    ensures nid(INDEX_FILE_NAME) == index_name(),
{}
pub assume_specification [ <IndexEntry as Default>::default ] () -> (r: IndexEntry)
    ensures r.file_id == 0, r.offset == 0;
