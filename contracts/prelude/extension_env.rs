// ================= ASSUMED environment of BlockExtensionVerifier: opaque records with total accessors =================
#[verifier::external_body] pub struct HeaderView { _x: u64 }
#[verifier::external_body] pub struct BlockView { _x: u64 }
#[verifier::external_body] pub struct PackedBlock { _x: u64 }
#[verifier::external_body] pub struct PackedBytes { _x: u64 }
#[verifier::external_body] pub struct RawBytes { _x: u64 }
#[verifier::external_body] pub struct HeaderDigest { _x: u64 }
#[verifier::external_body] pub struct ExtraHashView { _x: u64 }
#[verifier::external_body] pub struct Error { _x: u64 }
#[verifier::external_body] pub struct MMRError { _x: u64 }
#[verifier::external_body] pub struct Consensus { _x: u64 }
#[verifier::external_body] #[verifier::reject_recursive_types(MS)] pub struct ChainRootMMR<MS> { _m: ::core::marker::PhantomData<MS> }
pub enum InternalErrorKind { MMR }
impl InternalErrorKind { #[verifier::external_body] pub fn other(&self, e: MMRError) -> (r: Error) { unimplemented!() } }
impl PartialEq for Byte32 { #[verifier::external_body] fn eq(&self, o: &Byte32) -> (r: bool) ensures r == (*self == *o) { unimplemented!() } }
impl vstd::std_specs::cmp::PartialEqSpecImpl for Byte32 {
    open spec fn obeys_eq_spec() -> bool { true }
    open spec fn eq_spec(&self, o: &Byte32) -> bool { *self == *o }
}
pub uninterp spec fn b_extra_fields(b: &BlockView) -> usize;
pub uninterp spec fn b_extension(b: &BlockView) -> Option<Seq<u8>>;           // the extension bytes, if the field is present
pub uninterp spec fn b_extra_hash(b: &BlockView) -> Byte32;
pub uninterp spec fn b_calc_extra_hash(b: &BlockView) -> Byte32;
pub uninterp spec fn h_epoch_number(h: &HeaderView) -> u64;
pub uninterp spec fn rfc0044(c: &Consensus, epoch: u64) -> bool;
pub uninterp spec fn mmr_root<MS>(m: &ChainRootMMR<MS>) -> Option<HeaderDigest>;  // None = the MMR store reports an error
pub uninterp spec fn digest_hash(d: &HeaderDigest) -> Seq<u8>;                // 32 bytes: the hash of the root digest
pub uninterp spec fn byte32_of(s: Seq<u8>) -> Byte32;                        // injective on 32-byte strings
#[verifier::external_body]
pub broadcast proof fn axiom_byte32_injective(a: Seq<u8>, b: Seq<u8>)
    requires a.len() == 32, b.len() == 32
    ensures (#[trigger] byte32_of(a) == #[trigger] byte32_of(b)) <==> a == b
{}
pub uninterp spec fn pb_extra(b: &PackedBlock) -> usize;
pub uninterp spec fn pby(b: &PackedBytes) -> Seq<u8>;
pub uninterp spec fn rby(b: &RawBytes) -> Seq<u8>;
pub uninterp spec fn ehv(e: &ExtraHashView) -> Byte32;
pub struct EpochNum { pub n: u64 }
impl EpochNum { pub fn number(&self) -> (r: u64) ensures r == self.n { self.n } }
impl HeaderView { #[verifier::external_body] pub fn epoch(&self) -> (r: EpochNum) ensures r.n == h_epoch_number(self) { unimplemented!() } }
impl BlockView {
    #[verifier::external_body] pub fn data(&self) -> (r: PackedBlock) ensures pb_extra(&r) == b_extra_fields(self) { unimplemented!() }
    #[verifier::external_body] pub fn extension(&self) -> (r: Option<PackedBytes>) ensures match b_extension(self) { Some(s) => r is Some && pby(&r->Some_0) == s, None => r is None } { unimplemented!() }
    #[verifier::external_body] pub fn calc_extra_hash(&self) -> (r: ExtraHashView) ensures ehv(&r) == b_calc_extra_hash(self) { unimplemented!() }
    #[verifier::external_body] pub fn extra_hash(&self) -> (r: Byte32) ensures r == b_extra_hash(self) { unimplemented!() }
}
impl PackedBlock { #[verifier::external_body] pub fn count_extra_fields(&self) -> (r: usize) ensures r == pb_extra(self) { unimplemented!() } }
impl ExtraHashView { #[verifier::external_body] pub fn extra_hash(&self) -> (r: Byte32) ensures r == ehv(self) { unimplemented!() } }
impl PackedBytes {
    #[verifier::external_body] pub fn is_empty(&self) -> (r: bool) ensures r == (pby(self).len() == 0) { unimplemented!() }
    #[verifier::external_body] pub fn len(&self) -> (r: usize) ensures r == pby(self).len() { unimplemented!() }
    #[verifier::external_body] pub fn raw_data(&self) -> (r: RawBytes) ensures rby(&r) == pby(self) { unimplemented!() }
}
impl RawBytes { #[verifier::external_body] pub fn slice(&self, r: ::core::ops::RangeTo<usize>) -> (o: RawBytes) requires r.end <= rby(self).len() ensures rby(&o) == rby(self).subrange(0, r.end as int) { unimplemented!() } }
impl Byte32 { #[verifier::external_body] pub fn new_unchecked(b: RawBytes) -> (r: Byte32) ensures r == byte32_of(rby(&b)) { unimplemented!() } }
impl HeaderDigest { #[verifier::external_body] pub fn calc_mmr_hash(&self) -> (r: Byte32) ensures r == byte32_of(digest_hash(self)), digest_hash(self).len() == 32 { unimplemented!() } }
impl<MS> ChainRootMMR<MS> {
    #[verifier::external_body] pub fn get_root(&self) -> (r: Result<HeaderDigest, MMRError>) ensures match mmr_root(self) { Some(d) => r is Ok && r->Ok_0 == d, None => r is Err } { unimplemented!() }
}
impl Consensus { #[verifier::external_body] pub fn rfc0044_active(&self, target: u64) -> (r: bool) ensures r == rfc0044(self, target) { unimplemented!() } }
