// ================= ASSUMED: the environment of DaoCalculator as opaque records with total accessors =================
#[verifier::external_body] pub struct HeaderView { _x: u64 }
#[verifier::external_body] pub struct PackedRawHeader { _x: u64 }
#[verifier::external_body] pub struct PackedHeader { _x: u64 }
#[verifier::external_body] pub struct CellOutput { _x: u64 }
#[verifier::external_body] pub struct PUint64 { _x: u64 }
#[verifier::external_body] pub struct Consensus { _x: u64 }
pub struct Dao { pub ar: u64, pub c: u64, pub s: u64, pub u: u64 }
pub uninterp spec fn dao_of(b: Byte32) -> Dao;          // the four 8-byte lanes; pack/extract proved inverse by Kani unit c06_dao_pack
pub uninterp spec fn h_number(h: &HeaderView) -> u64;
pub uninterp spec fn h_dao(h: &HeaderView) -> Dao;
pub uninterp spec fn h_parent(h: &HeaderView) -> Byte32;
pub uninterp spec fn h_hash(h: &HeaderView) -> Byte32;
pub uninterp spec fn out_capacity(o: &CellOutput) -> u64;
pub uninterp spec fn out_occupied(o: &CellOutput, data: u64) -> Option<u64>;
pub uninterp spec fn sec_reward(c: &Consensus) -> u64;
#[verifier::external_body]
pub fn extract_dao_data(dao: Byte32) -> (r: (u64, Capacity, Capacity, Capacity))
    ensures r.0 == dao_of(dao).ar, r.1.0 == dao_of(dao).c, r.2.0 == dao_of(dao).s, r.3.0 == dao_of(dao).u { unimplemented!() }
impl HeaderView {
    #[verifier::external_body] pub fn number(&self) -> (r: u64) ensures r == h_number(self) { unimplemented!() }
    #[verifier::external_body] pub fn hash(&self) -> (r: Byte32) ensures r == h_hash(self) { unimplemented!() }
    #[verifier::external_body] pub fn dao(&self) -> (r: Byte32) ensures dao_of(r) == h_dao(self) { unimplemented!() }
    #[verifier::external_body] pub fn data(&self) -> (r: PackedHeader) ensures hdr_parent(&r) == h_parent(self) { unimplemented!() }
}
pub uninterp spec fn hdr_parent(h: &PackedHeader) -> Byte32;
pub uninterp spec fn raw_parent(h: &PackedRawHeader) -> Byte32;
impl PackedHeader { #[verifier::external_body] pub fn raw(&self) -> (r: PackedRawHeader) ensures raw_parent(&r) == hdr_parent(self) { unimplemented!() } }
impl PackedRawHeader { #[verifier::external_body] pub fn parent_hash(&self) -> (r: Byte32) ensures r == raw_parent(self) { unimplemented!() } }
impl From<PUint64> for Capacity { #[verifier::external_body] fn from(x: PUint64) -> (r: Capacity) ensures r.0 == pu64(x) { unimplemented!() } }
pub uninterp spec fn pu64(x: PUint64) -> u64;
impl CellOutput {
    #[verifier::external_body] pub fn capacity(&self) -> (r: PUint64) ensures pu64(r) == out_capacity(self) { unimplemented!() }
    #[verifier::external_body] pub fn occupied_capacity(&self, data: Capacity) -> (r: CapacityResult<Capacity>)
        ensures match out_occupied(self, data.0) { Some(v) => r is Ok && r->Ok_0.0 == v, None => r is Err } { unimplemented!() }
}
impl Consensus { #[verifier::external_body] pub fn secondary_epoch_reward(&self) -> (r: Capacity) ensures r.0 == sec_reward(self) { unimplemented!() } }
pub trait HeaderProvider { spec fn hdr(&self, h: &Byte32) -> Option<HeaderView>;
    fn get_header(&self, hash: &Byte32) -> (r: Option<HeaderView>) ensures r == self.hdr(hash); }
pub trait EpochProvider { spec fn ep(&self, h: &HeaderView) -> Option<EpochExt>;
    fn get_epoch_ext(&self, h: &HeaderView) -> (r: Option<EpochExt>) ensures r == self.ep(h); }
pub trait CellDataProvider {}
