// ASSUMED: opaque foreign-crate value types (numext U256, molecule Byte32); Clone returns an equal value
#[verifier::external_body]
pub struct U256 { _b: [u64; 4] }
pub mod packed {
    #[allow(unused_imports)]
    use super::*;
    #[verifier::external_body]
    pub struct Byte32 { _b: [u8; 32] }
}
pub use packed::Byte32;
impl Clone for U256 {
    #[verifier::external_body]
    fn clone(&self) -> (r: Self) ensures r == *self { unimplemented!() }
}
impl Clone for packed::Byte32 {
    #[verifier::external_body]
    fn clone(&self) -> (r: Self) ensures r == *self { unimplemented!() }
}
pub type BlockNumber = u64;
pub type EpochNumber = u64;
