// ================= ASSUMED: the chain store as a READ-ONLY function of what it currently answers =================
// (R1 in DESIGN.md is about mutation; code that only reads through getters is verified against these spec functions
//  under stated invariants of the answers.)
impl PartialEq for Byte32 {
    #[verifier::external_body] fn eq(&self, o: &Byte32) -> (r: bool) ensures r == (*self == *o) { unimplemented!() }
}
impl vstd::std_specs::cmp::PartialEqSpecImpl for Byte32 {
    open spec fn obeys_eq_spec() -> bool { true }
    open spec fn eq_spec(&self, o: &Byte32) -> bool { *self == *o }
}
#[verifier::external_body] pub struct BlockView { _x: u64 }
#[verifier::external_body] pub struct HeaderView { _x: u64 }
#[verifier::external_body] pub struct PackedBlock { _x: u64 }
#[verifier::external_body] pub struct PackedHeader { _x: u64 }
#[verifier::external_body] pub struct PackedRawHeader { _x: u64 }
#[verifier::external_body] pub struct ChainDB { _x: u64 }
#[verifier::external_body] pub struct Shared { _x: u64 }
pub uninterp spec fn main_hash(db: &ChainDB, n: u64) -> Option<Byte32>;      // number -> hash index of the main chain
pub uninterp spec fn block_of(db: &ChainDB, h: Byte32) -> Option<BlockView>;
pub uninterp spec fn ext_of(db: &ChainDB, h: Byte32) -> Option<BlockExt>;
pub uninterp spec fn b_number(b: &BlockView) -> u64;
pub uninterp spec fn b_hash(b: &BlockView) -> Byte32;
pub uninterp spec fn b_parent(b: &BlockView) -> Byte32;
impl ChainDB {
    #[verifier::external_body] pub fn get_block_hash(&self, n: u64) -> (r: Option<Byte32>) ensures r == main_hash(self, n) { unimplemented!() }
    #[verifier::external_body] pub fn get_block(&self, h: &Byte32) -> (r: Option<BlockView>) ensures r == block_of(self, *h) { unimplemented!() }
    #[verifier::external_body] pub fn get_block_ext(&self, h: &Byte32) -> (r: Option<BlockExt>) ensures r == ext_of(self, *h) { unimplemented!() }
}
pub uninterp spec fn store_of(s: &Shared) -> ChainDB;
impl Shared { #[verifier::external_body] pub fn store(&self) -> (r: &ChainDB) ensures *r == store_of(self) { unimplemented!() } }
impl Clone for BlockView { #[verifier::external_body] fn clone(&self) -> (r: BlockView) ensures r == *self { unimplemented!() } }
pub uninterp spec fn h_number(h: &HeaderView) -> u64;
impl BlockView {
    #[verifier::external_body] pub fn header(&self) -> (r: HeaderView) ensures h_number(&r) == b_number(self) { unimplemented!() }
    #[verifier::external_body] pub fn data(&self) -> (r: PackedBlock) ensures blk_parent(&r) == b_parent(self) { unimplemented!() }
}
impl HeaderView { #[verifier::external_body] pub fn number(&self) -> (r: u64) ensures r == h_number(self) { unimplemented!() } }
pub uninterp spec fn blk_parent(b: &PackedBlock) -> Byte32;
pub uninterp spec fn hd_parent(b: &PackedHeader) -> Byte32;
pub uninterp spec fn raw_parent(b: &PackedRawHeader) -> Byte32;
impl PackedBlock { #[verifier::external_body] pub fn header(&self) -> (r: PackedHeader) ensures hd_parent(&r) == blk_parent(self) { unimplemented!() } }
impl PackedHeader { #[verifier::external_body] pub fn raw(&self) -> (r: PackedRawHeader) ensures raw_parent(&r) == hd_parent(self) { unimplemented!() } }
impl PackedRawHeader { #[verifier::external_body] pub fn parent_hash(&self) -> (r: Byte32) ensures r == raw_parent(self) { unimplemented!() } }

// ---- invariants of the answers, stated as predicates ----
pub open spec fn main_blk(d: &ChainDB, n: int) -> BlockView { block_of(d, main_hash(d, n as u64)->Some_0)->Some_0 }
// the main chain is stored, numbered and parent-linked up to `tip`
#[verifier::opaque]
pub open spec fn main_ok(d: &ChainDB, tip: int) -> bool {
    forall|n: int| 0 <= n <= tip ==> {
        &&& (#[trigger] main_hash(d, n as u64)) is Some
        &&& block_of(d, main_hash(d, n as u64)->Some_0) is Some
        &&& b_number(&main_blk(d, n)) == n
        &&& b_hash(&main_blk(d, n)) == main_hash(d, n as u64)->Some_0
        &&& (n >= 1 ==> b_parent(&main_blk(d, n)) == main_hash(d, (n - 1) as u64)->Some_0)
    }
}
// the ancestry of the new tip: anc(k) is the hash of its ancestor at height k (uninterpreted: any ancestry)
pub uninterp spec fn anc(k: int) -> Byte32;
pub open spec fn anc_blk(d: &ChainDB, k: int) -> BlockView { block_of(d, anc(k))->Some_0 }
#[verifier::opaque]
pub open spec fn anc_ok(d: &ChainDB, new_tip: int) -> bool {
    forall|k: int| 0 <= k < new_tip ==> {
        &&& block_of(d, #[trigger] anc(k)) is Some
        &&& ext_of(d, anc(k)) is Some
        &&& b_number(&anc_blk(d, k)) == k
        &&& b_hash(&anc_blk(d, k)) == anc(k)
        &&& (k >= 1 ==> b_parent(&anc_blk(d, k)) == anc(k - 1))
    }
}
pub open spec fn main_seq(d: &ChainDB, lo: int, hi: int) -> Seq<BlockView> { Seq::new((if hi >= lo { hi - lo + 1 } else { 0 }) as nat, |i: int| main_blk(d, lo + i)) }
pub open spec fn anc_seq(d: &ChainDB, lo: int, hi: int) -> Seq<BlockView> { Seq::new((if hi >= lo { hi - lo + 1 } else { 0 }) as nat, |i: int| anc_blk(d, lo + i)) }

// instances of the two invariants (the predicates themselves are opaque to keep each query small)
pub proof fn lemma_main_at(d: &ChainDB, tip: int, n: int)
    requires main_ok(d, tip), 0 <= n <= tip
    ensures main_hash(d, n as u64) is Some, block_of(d, main_hash(d, n as u64)->Some_0) is Some,
        b_number(&main_blk(d, n)) == n, b_hash(&main_blk(d, n)) == main_hash(d, n as u64)->Some_0,
        n >= 1 ==> b_parent(&main_blk(d, n)) == main_hash(d, (n - 1) as u64)->Some_0,
{ reveal(main_ok); }
pub proof fn lemma_main_shrink(d: &ChainDB, tip: int, t2: int)
    requires main_ok(d, tip), t2 <= tip
    ensures main_ok(d, t2)
{ reveal(main_ok); }
pub proof fn lemma_anc_at(d: &ChainDB, new_tip: int, k: int)
    requires anc_ok(d, new_tip), 0 <= k < new_tip
    ensures block_of(d, anc(k)) is Some, ext_of(d, anc(k)) is Some, b_number(&anc_blk(d, k)) == k, b_hash(&anc_blk(d, k)) == anc(k),
        k >= 1 ==> b_parent(&anc_blk(d, k)) == anc(k - 1),
{ reveal(anc_ok); }
pub proof fn lemma_anc_shrink(d: &ChainDB, new_tip: int, t2: int)
    requires anc_ok(d, new_tip), t2 <= new_tip
    ensures anc_ok(d, t2)
{ reveal(anc_ok); }
// growing the two block sequences by one element
pub proof fn lemma_main_seq_push_back(d: &ChainDB, lo: int, hi: int)
    requires hi + 1 >= lo
    ensures main_seq(d, lo, hi).push(main_blk(d, hi + 1)) =~= main_seq(d, lo, hi + 1)
{}
pub proof fn lemma_main_seq_push_front(d: &ChainDB, lo: int, hi: int, rest: Seq<BlockView>)
    requires hi >= lo
    ensures seq![main_blk(d, lo)] + (main_seq(d, lo + 1, hi) + rest) =~= main_seq(d, lo, hi) + rest
{}
pub proof fn lemma_anc_seq_push_front(d: &ChainDB, lo: int, hi: int, rest: Seq<BlockView>)
    requires hi >= lo
    ensures seq![anc_blk(d, lo)] + (anc_seq(d, lo + 1, hi) + rest) =~= anc_seq(d, lo, hi) + rest
{}
pub proof fn lemma_seq_empty(d: &ChainDB, lo: int, rest: Seq<BlockView>)
    ensures main_seq(d, lo, lo - 1) + rest =~= rest, anc_seq(d, lo, lo - 1) + rest =~= rest, main_seq(d, lo, lo - 1) =~= Seq::<BlockView>::empty()
{}
pub proof fn lemma_seq_concat(d: &ChainDB, lo: int, mid: int, hi: int, rest: Seq<BlockView>)
    requires lo <= mid + 1, mid <= hi
    ensures main_seq(d, lo, mid) + main_seq(d, mid + 1, hi) =~= main_seq(d, lo, hi),
        anc_seq(d, lo, mid) + (anc_seq(d, mid + 1, hi) + rest) =~= anc_seq(d, lo, hi) + rest,
{}

// exts of the new tip's ancestors, in increasing height
pub open spec fn anc_ext(d: &ChainDB, k: int) -> BlockExt { ext_of(d, anc(k))->Some_0 }
pub open spec fn ext_seq(d: &ChainDB, lo: int, hi: int) -> Seq<BlockExt> { Seq::new((if hi >= lo { hi - lo + 1 } else { 0 }) as nat, |i: int| anc_ext(d, lo + i)) }
// "every ancestor in [lo, hi] is still unverified"
pub open spec fn all_unverified(d: &ChainDB, lo: int, hi: int) -> bool { forall|k: int| lo <= k <= hi ==> (#[trigger] anc_ext(d, k)).verified is None }
pub proof fn lemma_ext_seq_push_front(d: &ChainDB, lo: int, hi: int, rest: Seq<BlockExt>)
    requires hi >= lo
    ensures seq![anc_ext(d, lo)] + (ext_seq(d, lo + 1, hi) + rest) =~= ext_seq(d, lo, hi) + rest
{}
pub proof fn lemma_ext_seq_empty(d: &ChainDB, lo: int, rest: Seq<BlockExt>)
    ensures ext_seq(d, lo, lo - 1) + rest =~= rest
{}
// what the walk down from the new tip has collected so far: while `unseen`, the exts of every ancestor above the cursor
// (all of them unverified); once a verified ancestor has been met at height v, exactly the exts above v
pub open spec fn dirty_ok(d: &ChainDB, unseen: bool, cursor: int, top: int, dirty: Seq<BlockExt>, rest: Seq<BlockExt>) -> bool {
    if unseen { dirty == ext_seq(d, cursor + 1, top) + rest && all_unverified(d, cursor + 1, top) }
    else { exists|v: int| cursor < v <= top && #[trigger] anc_ext(d, v).verified is Some && all_unverified(d, v + 1, top) && dirty == ext_seq(d, v + 1, top) + rest }
}
pub proof fn lemma_ext_seq_concat(d: &ChainDB, lo: int, mid: int, hi: int, rest: Seq<BlockExt>)
    requires lo <= mid + 1, mid <= hi
    ensures ext_seq(d, lo, mid) + (ext_seq(d, mid + 1, hi) + rest) =~= ext_seq(d, lo, hi) + rest
{}
// two consecutive walks compose into one
pub proof fn lemma_dirty_compose(d: &ChainDB, u1: bool, u2: bool, c: int, m: int, top: int, d1: Seq<BlockExt>, d2: Seq<BlockExt>, rest: Seq<BlockExt>)
    requires c <= m <= top, dirty_ok(d, u1, m, top, d1, rest),
        u1 ==> dirty_ok(d, u2, c, m, d2, d1), !u1 ==> (!u2 && d2 == d1),
    ensures dirty_ok(d, u2, c, top, d2, rest)
{
    if u1 {
        if u2 {
            lemma_ext_seq_concat(d, c + 1, m, top, rest);
        } else {
            let v = choose|v: int| c < v <= m && #[trigger] anc_ext(d, v).verified is Some && all_unverified(d, v + 1, m) && d2 == ext_seq(d, v + 1, m) + d1;
            lemma_ext_seq_concat(d, v + 1, m, top, rest);
            assert(all_unverified(d, v + 1, top));
            assert(d2 =~= ext_seq(d, v + 1, top) + rest);
        }
    } else {
        let v = choose|v: int| m < v <= top && #[trigger] anc_ext(d, v).verified is Some && all_unverified(d, v + 1, top) && d1 == ext_seq(d, v + 1, top) + rest;
        assert(c < v);
    }
}
