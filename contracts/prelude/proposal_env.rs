// ================= ASSUMED: proposal table and consensus as opaque records =================
#[verifier::external_body] pub struct IdSet { _x: u64 }                 // HashSet<ProposalShortId>
#[verifier::external_body] pub struct ProposalTable { _x: u64 }         // BTreeMap<BlockNumber, HashSet<ProposalShortId>> + window
#[verifier::external_body] pub struct Consensus { _x: u64 }
pub uninterp spec fn union_ids(b: &BlockView) -> IdSet;                 // proposal ids of the block, uncles' included
pub uninterp spec fn tbl(t: &ProposalTable) -> Map<u64, IdSet>;
pub uninterp spec fn window_of(c: &Consensus) -> ProposalWindow;
pub uninterp spec fn consensus_of(s: &Shared) -> Consensus;
impl BlockView { #[verifier::external_body] pub fn union_proposal_ids(&self) -> (r: IdSet) ensures r == union_ids(self) { unimplemented!() } }
impl ProposalTable {
    #[verifier::external_body] pub fn insert(&mut self, n: u64, ids: IdSet) -> (r: bool) ensures tbl(final(self)) == tbl(old(self)).insert(n, ids) { unimplemented!() }
    #[verifier::external_body] pub fn remove(&mut self, n: u64) -> (r: Option<IdSet>) ensures tbl(final(self)) == tbl(old(self)).remove(n) { unimplemented!() }
}
impl Shared { #[verifier::external_body] pub fn consensus(&self) -> (r: &Consensus) ensures *r == consensus_of(self) { unimplemented!() } }
impl Consensus { #[verifier::external_body] pub fn tx_proposal_window(&self) -> (r: ProposalWindow) ensures r == window_of(self) { unimplemented!() } }
// a block's OWN proposal ids, without its uncles' -- what a careless edit might insert instead of union_proposal_ids(); present so
// that such an edit is DECIDED (the ids inserted are then not known to be the union) rather than a front-end error
#[verifier::external_body] pub struct OwnIdVec { _x: u64 }
#[verifier::external_body] pub struct OwnIdIter { _x: u64 }
pub uninterp spec fn own_ids_of(v: &OwnIdVec) -> IdSet;
impl PackedBlock { #[verifier::external_body] pub fn proposals(&self) -> (r: OwnIdVec) { unimplemented!() } }
impl OwnIdVec { #[verifier::external_body] pub fn into_iter(self) -> (r: OwnIdIter) { unimplemented!() } }
impl OwnIdIter { #[verifier::external_body] pub fn collect(self) -> (r: IdSet) { unimplemented!() } }
