// ================= ASSUMED: more numext U256 operations and ckb_rational::RationalU256 =================
// U256 operations are the mathematical ones on uval() (256-bit overflow NOT modelled).  RationalU256 values are opaque;
// the only facts assumed about them are listed as axioms below.
#[verifier::external_body] pub struct RationalU256 { _x: [u64; 8] }
impl From<u64> for U256 { #[verifier::external_body] fn from(v: u64) -> (r: U256) ensures uval(&r) == v { unimplemented!() } }
impl Eq for U256 {}
impl Ord for U256 { #[verifier::external_body] fn cmp(&self, o: &U256) -> (r: Ordering)
    ensures r == (if uval(self) < uval(o) { Ordering::Less } else if uval(self) > uval(o) { Ordering::Greater } else { Ordering::Equal }) { unimplemented!() } }
impl vstd::std_specs::cmp::PartialOrdSpecImpl for U256 {
    open spec fn obeys_partial_cmp_spec() -> bool { true }
    open spec fn partial_cmp_spec(&self, o: &Self) -> Option<Ordering> { Some(if uval(self) < uval(o) { Ordering::Less } else if uval(self) > uval(o) { Ordering::Greater } else { Ordering::Equal }) }
}
impl vstd::std_specs::cmp::OrdSpecImpl for U256 {
    open spec fn obeys_cmp_spec() -> bool { true }
    open spec fn cmp_spec(&self, o: &Self) -> Ordering { if uval(self) < uval(o) { Ordering::Less } else if uval(self) > uval(o) { Ordering::Greater } else { Ordering::Equal } }
}

// the only facts assumed about rational arithmetic: `a > b` is a strict comparison of values, and for a > b the quotient
// a / b has integer part >= 1 (ASSUMPTION: true of any non-negative rationals with b > 0)
pub uninterp spec fn rq_gt(a: &RationalU256, b: &RationalU256) -> bool;
pub uninterp spec fn rq_floor_ge_one(a: &RationalU256) -> bool;
pub uninterp spec fn rq_is_zero(a: &RationalU256) -> bool;

impl<'a> vstd::std_specs::ops::DivSpecImpl<&'a U256> for U256 {
    open spec fn obeys_div_spec() -> bool { false }
    open spec fn div_req(self, rhs: &'a U256) -> bool { true }
    open spec fn div_spec(self, rhs: &'a U256) -> U256 { arbitrary() }
}
impl<'a> ::core::ops::Div<&'a U256> for U256 {
    type Output = U256;
    #[verifier::external_body] fn div(self, rhs: &'a U256) -> (r: U256) ensures uval(rhs) > 0 ==> uval(&r) == uval(&self) / uval(rhs) { unimplemented!() }
}
impl<'a> vstd::std_specs::ops::MulSpecImpl<RationalU256> for &'a RationalU256 {
    open spec fn obeys_mul_spec() -> bool { false }
    open spec fn mul_req(self, rhs: RationalU256) -> bool { true }
    open spec fn mul_spec(self, rhs: RationalU256) -> RationalU256 { arbitrary() }
}
impl<'a> ::core::ops::Mul<RationalU256> for &'a RationalU256 {
    type Output = RationalU256;
    #[verifier::external_body] fn mul(self, rhs: RationalU256) -> (r: RationalU256) { unimplemented!() }
}
impl<'a> vstd::std_specs::ops::AddSpecImpl<U256> for &'a RationalU256 {
    open spec fn obeys_add_spec() -> bool { false }
    open spec fn add_req(self, rhs: U256) -> bool { true }
    open spec fn add_spec(self, rhs: U256) -> RationalU256 { arbitrary() }
}
impl<'a> ::core::ops::Add<U256> for &'a RationalU256 {
    type Output = RationalU256;
    #[verifier::external_body] fn add(self, rhs: U256) -> (r: RationalU256) { unimplemented!() }
}
impl<'a> vstd::std_specs::ops::MulSpecImpl<&'a U256> for RationalU256 {
    open spec fn obeys_mul_spec() -> bool { false }
    open spec fn mul_req(self, rhs: &'a U256) -> bool { true }
    open spec fn mul_spec(self, rhs: &'a U256) -> RationalU256 { arbitrary() }
}
impl<'a> ::core::ops::Mul<&'a U256> for RationalU256 {
    type Output = RationalU256;
    #[verifier::external_body] fn mul(self, rhs: &'a U256) -> (r: RationalU256) { unimplemented!() }
}
impl vstd::std_specs::ops::DivSpecImpl<RationalU256> for RationalU256 {
    open spec fn obeys_div_spec() -> bool { false }
    open spec fn div_req(self, rhs: RationalU256) -> bool { true }
    open spec fn div_spec(self, rhs: RationalU256) -> RationalU256 { arbitrary() }
}
impl ::core::ops::Div<RationalU256> for RationalU256 {
    type Output = RationalU256;
    #[verifier::external_body] fn div(self, rhs: RationalU256) -> (r: RationalU256) ensures rq_gt(&self, &rhs) ==> rq_floor_ge_one(&r) { unimplemented!() }
}
impl vstd::std_specs::ops::MulSpecImpl<U256> for RationalU256 {
    open spec fn obeys_mul_spec() -> bool { false }
    open spec fn mul_req(self, rhs: U256) -> bool { true }
    open spec fn mul_spec(self, rhs: U256) -> RationalU256 { arbitrary() }
}
impl ::core::ops::Mul<U256> for RationalU256 {
    type Output = RationalU256;
    #[verifier::external_body] fn mul(self, rhs: U256) -> (r: RationalU256) { unimplemented!() }
}
impl vstd::std_specs::ops::AddSpecImpl<U256> for RationalU256 {
    open spec fn obeys_add_spec() -> bool { false }
    open spec fn add_req(self, rhs: U256) -> bool { true }
    open spec fn add_spec(self, rhs: U256) -> RationalU256 { arbitrary() }
}
impl ::core::ops::Add<U256> for RationalU256 {
    type Output = RationalU256;
    #[verifier::external_body] fn add(self, rhs: U256) -> (r: RationalU256) { unimplemented!() }
}
impl<'a> vstd::std_specs::ops::MulSpecImpl<&'a U256> for &'a RationalU256 {
    open spec fn obeys_mul_spec() -> bool { false }
    open spec fn mul_req(self, rhs: &'a U256) -> bool { true }
    open spec fn mul_spec(self, rhs: &'a U256) -> RationalU256 { arbitrary() }
}
impl<'a> ::core::ops::Mul<&'a U256> for &'a RationalU256 {
    type Output = RationalU256;
    #[verifier::external_body] fn mul(self, rhs: &'a U256) -> (r: RationalU256) { unimplemented!() }
}
impl PartialEq for RationalU256 { #[verifier::external_body] fn eq(&self, o: &RationalU256) -> bool { unimplemented!() } }
impl PartialOrd for RationalU256 {
    #[verifier::external_body] fn partial_cmp(&self, o: &RationalU256) -> Option<Ordering> { unimplemented!() }
    #[verifier::external_body] fn gt(&self, o: &RationalU256) -> (r: bool) ensures r == rq_gt(self, o) { unimplemented!() }
    // ASSUMED: the order of fractions is total
    #[verifier::external_body] fn lt(&self, o: &RationalU256) -> (r: bool) ensures r == rq_gt(o, self) { unimplemented!() }
    #[verifier::external_body] fn le(&self, o: &RationalU256) -> (r: bool) ensures r == !rq_gt(self, o) { unimplemented!() }
    #[verifier::external_body] fn ge(&self, o: &RationalU256) -> (r: bool) ensures r == !rq_gt(o, self) { unimplemented!() }
}
impl RationalU256 {
    #[verifier::external_body] pub fn new(n: U256, d: U256) -> (r: RationalU256) ensures rq_is_zero(&r) == (uval(&n) == 0) { unimplemented!() }
    #[verifier::external_body] pub fn one() -> RationalU256 { unimplemented!() }
    #[verifier::external_body] pub fn is_zero(&self) -> (r: bool) ensures r == rq_is_zero(self) { unimplemented!() }
    #[verifier::external_body] pub fn into_u256(self) -> (r: U256) ensures rq_floor_ge_one(&self) ==> uval(&r) >= 1 { unimplemented!() }
    #[verifier::external_body] pub fn saturating_sub_u256(self, rhs: U256) -> RationalU256 { unimplemented!() }
}
