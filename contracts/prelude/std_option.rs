// ASSUMED std specifications missing from vstd (the usual meaning of the combinator)
pub assume_specification<T, F: FnOnce() -> Option<T>> [Option::<T>::or_else] (o: Option<T>, f: F) -> (r: Option<T>)
    requires o is None ==> call_requires(f, ()),
    ensures o is Some ==> r == o, o is None ==> call_ensures(f, (), r);
