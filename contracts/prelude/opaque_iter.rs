// An opaque iterator over a ghost sequence: the stand-in for iterator expressions Verus has no laws for
// (enumerate, flat_map, molecule vector iterators).  ASSUMED: it yields the elements of its ghost sequence in order,
// once each, and then None.
#[verifier::external_body] #[verifier::accept_recursive_types(T)] pub struct OIter<T> { _p: ::core::marker::PhantomData<T> }
pub uninterp spec fn oview<T>(it: &OIter<T>) -> (int, Seq<T>);
impl<T> Iterator for OIter<T> {
    type Item = T;
    #[verifier::external_body]
    fn next(&mut self) -> (r: Option<T>)
        ensures ({ let (i0, s0) = oview(old(self)); let (i1, s1) = oview(final(self)); s1 == s0 && 0 <= i0 <= s0.len()
            && (r is None ==> i0 == s0.len() && i1 == i0) && (r matches Some(x) ==> i0 < s0.len() && i1 == i0 + 1 && x == s0[i0]) })
    { unimplemented!() }
}
impl<T> vstd::std_specs::iter::IteratorSpecImpl for OIter<T> {
    open spec fn obeys_prophetic_iter_laws(&self) -> bool { true }
    #[verifier::prophetic] open spec fn remaining(&self) -> Seq<T> { oview(self).1.skip(oview(self).0) }
    #[verifier::prophetic] open spec fn will_return_none(&self) -> bool { true }
    open spec fn decrease(&self) -> Option<nat> { Some((oview(self).1.len() - oview(self).0) as nat) }
    open spec fn peek(&self, index: int) -> Option<T> { let r = oview(self).1.skip(oview(self).0); if 0 <= index < r.len() { Some(r[index]) } else { None } }
}
