// ================= ASSUMED: ckb-types HeaderView as an opaque record with total accessors =================
#[verifier::external_body] pub struct HeaderView { _x: u64 }
#[verifier::external_body] pub struct Error { _x: u64 }      // ckb_error::Error: opaque; conversions into it are total
pub uninterp spec fn h_number(h: &HeaderView) -> u64;
pub uninterp spec fn h_epoch(h: &HeaderView) -> EpochNumberWithFraction;
pub uninterp spec fn h_timestamp(h: &HeaderView) -> u64;
pub uninterp spec fn h_is_genesis(h: &HeaderView) -> bool;
pub uninterp spec fn h_parent_hash(h: &HeaderView) -> Byte32;
pub uninterp spec fn h_hash(h: &HeaderView) -> Byte32;
pub uninterp spec fn h_compact_target(h: &HeaderView) -> u32;
impl HeaderView {
    #[verifier::external_body] pub fn number(&self) -> (r: u64) ensures r == h_number(self) { unimplemented!() }
    #[verifier::external_body] pub fn epoch(&self) -> (r: EpochNumberWithFraction) ensures r == h_epoch(self) { unimplemented!() }
    #[verifier::external_body] pub fn timestamp(&self) -> (r: u64) ensures r == h_timestamp(self) { unimplemented!() }
    #[verifier::external_body] pub fn is_genesis(&self) -> (r: bool) ensures r == h_is_genesis(self) { unimplemented!() }
    #[verifier::external_body] pub fn parent_hash(&self) -> (r: Byte32) ensures r == h_parent_hash(self) { unimplemented!() }
    #[verifier::external_body] pub fn hash(&self) -> (r: Byte32) ensures r == h_hash(self) { unimplemented!() }
    #[verifier::external_body] pub fn compact_target(&self) -> (r: u32) ensures r == h_compact_target(self) { unimplemented!() }
}
// packed path to the same fields: header.data().raw().parent_hash() (ASSUMED to agree with the view accessor)
#[verifier::external_body] pub struct PackedHeader { _x: u64 }
#[verifier::external_body] pub struct PackedRawHeader { _x: u64 }
pub uninterp spec fn ph_of(h: &HeaderView) -> PackedHeader;
pub uninterp spec fn raw_of(h: &PackedHeader) -> PackedRawHeader;
pub uninterp spec fn raw_parent_hash(r: &PackedRawHeader) -> Byte32;
#[verifier::external_body]
pub broadcast proof fn axiom_packed_parent_hash(h: &HeaderView)
    ensures #[trigger] raw_parent_hash(&raw_of(&ph_of(h))) == h_parent_hash(h)
{}
impl HeaderView {
    #[verifier::external_body] pub fn data(&self) -> (r: PackedHeader) ensures r == ph_of(self) { unimplemented!() }
}
impl PackedHeader {
    #[verifier::external_body] pub fn raw(&self) -> (r: PackedRawHeader) ensures r == raw_of(self) { unimplemented!() }
}
impl PackedRawHeader {
    #[verifier::external_body] pub fn parent_hash(&self) -> (r: Byte32) ensures r == raw_parent_hash(self) { unimplemented!() }
}
