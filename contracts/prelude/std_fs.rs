// ================= ASSUMED: std::fs / std::io as an abstract file system =================
// A file handle has an abstract view (identity of the file it is open on, content, cursor).
// seek / rewind / read_exact / write_all act on that view; NO spurious I/O errors (an operation within
// bounds succeeds); a handle's view is independent of other handles.
#[verifier::external_type_specification] #[verifier::external_body] pub struct ExFile(File);
#[verifier::external_type_specification] #[verifier::external_body] pub struct ExIoError(IoError);
#[verifier::external_type_specification] pub struct ExSeekFrom(SeekFrom);
#[verifier::external_type_specification] #[verifier::external_body] pub struct ExPathBuf(PathBuf);
#[verifier::external_type_specification] #[verifier::external_body] pub struct ExPath(Path);

pub struct FileView { pub id: int, pub data: Seq<u8>, pub pos: int }
pub uninterp spec fn fview<T: ?Sized>(f: &T) -> FileView;
// content, before the call under proof, of the file with identity `id`  (uninterpreted: the proof holds for every disk)
pub uninterp spec fn disk(id: int) -> Seq<u8>;
#[verifier::external_body]
pub broadcast proof fn axiom_ref_view(f: &File)
    ensures #[trigger] fview::<&File>(&f) == fview::<File>(f)
{}
// identity of a path value / of a file-name value
pub uninterp spec fn pid<T: ?Sized>(p: &T) -> int;
pub uninterp spec fn nid<T>(p: T) -> int;
pub uninterp spec fn pjoin(base: int, name: int) -> int;

#[verifier::external_trait_specification]
pub trait ExSeek {
    type ExternalTraitSpecificationFor: Seek;
    fn seek(&mut self, pos: SeekFrom) -> (r: Result<u64, IoError>)
        ensures
            fview(final(self)).data == fview(old(self)).data,
            fview(final(self)).id == fview(old(self)).id,
            match pos {
                SeekFrom::Start(n) => r is Ok && fview(final(self)).pos == n as int,
                SeekFrom::End(k) => (fview(old(self)).data.len() + k >= 0 && fview(old(self)).data.len() + k <= u64::MAX) ==> r is Ok && fview(final(self)).pos == fview(old(self)).data.len() + k,
                SeekFrom::Current(k) => true,
            },
            r is Ok ==> r->Ok_0 as int == fview(final(self)).pos;
    fn rewind(&mut self) -> (r: Result<(), IoError>)
        ensures
            fview(final(self)).data == fview(old(self)).data,
            fview(final(self)).id == fview(old(self)).id,
            r is Ok, fview(final(self)).pos == 0;
}

#[verifier::external_trait_specification]
pub trait ExRead {
    type ExternalTraitSpecificationFor: Read;
    fn read(&mut self, buf: &mut [u8]) -> Result<usize, IoError>;
    fn read_exact(&mut self, buf: &mut [u8]) -> (r: Result<(), IoError>)
        ensures
            fview(final(self)).data == fview(old(self)).data,
            fview(final(self)).id == fview(old(self)).id,
            final(buf)@.len() == old(buf)@.len(),
            r is Ok <==> fview(old(self)).pos + old(buf)@.len() <= fview(old(self)).data.len(),
            r is Ok ==> final(buf)@ == fview(old(self)).data.subrange(fview(old(self)).pos, fview(old(self)).pos + old(buf)@.len())
                && fview(final(self)).pos == fview(old(self)).pos + old(buf)@.len();
}

#[verifier::external_trait_specification]
pub trait ExWrite {
    type ExternalTraitSpecificationFor: Write;
    fn write(&mut self, buf: &[u8]) -> Result<usize, IoError>;
    fn flush(&mut self) -> Result<(), IoError>;
    // write at the cursor; only the append case (cursor at end) is specified
    fn write_all(&mut self, buf: &[u8]) -> (r: Result<(), IoError>)
        ensures
            fview(final(self)).id == fview(old(self)).id,
            fview(old(self)).pos == fview(old(self)).data.len() ==> r is Ok
                && fview(final(self)).data == fview(old(self)).data + buf@
                && fview(final(self)).pos == fview(final(self)).data.len();
}

pub assume_specification [ File::sync_all ] (f: &File) -> (r: Result<(), IoError>) ensures r is Ok;
pub assume_specification<P: AsRef<Path>> [std::fs::create_dir_all] (p: P) -> (r: Result<(), IoError>) ensures r is Ok;
pub assume_specification<P: AsRef<Path>> [std::path::Path::join] (s: &Path, p: P) -> (r: PathBuf)
    ensures pid(&r) == pjoin(pid(s), nid(p));
pub assume_specification [ <PathBuf as std::ops::Deref>::deref ] (p: &PathBuf) -> (r: &Path)
    ensures pid(r) == pid(p);
// ---- OpenOptions: a record of flags; `open` yields a handle whose view is determined by the flags and the disk ----
#[verifier::external_type_specification] #[verifier::external_body] pub struct ExOpenOptions(std::fs::OpenOptions);
pub struct OOFlags { pub create: bool, pub read: bool, pub write: bool, pub truncate: bool, pub append: bool }
pub uninterp spec fn oo(o: &std::fs::OpenOptions) -> OOFlags;
pub assume_specification [std::fs::OpenOptions::new] () -> (r: std::fs::OpenOptions)
    ensures oo(&r) == (OOFlags { create: false, read: false, write: false, truncate: false, append: false });
pub assume_specification [std::fs::OpenOptions::create] (o: &mut std::fs::OpenOptions, b: bool) -> (r: &mut std::fs::OpenOptions)
    ensures oo(r) == (OOFlags { create: b, ..oo(old(o)) }), *final(o) == *final(r);
pub assume_specification [std::fs::OpenOptions::read] (o: &mut std::fs::OpenOptions, b: bool) -> (r: &mut std::fs::OpenOptions)
    ensures oo(r) == (OOFlags { read: b, ..oo(old(o)) }), *final(o) == *final(r);
pub assume_specification [std::fs::OpenOptions::write] (o: &mut std::fs::OpenOptions, b: bool) -> (r: &mut std::fs::OpenOptions)
    ensures oo(r) == (OOFlags { write: b, ..oo(old(o)) }), *final(o) == *final(r);
pub assume_specification [std::fs::OpenOptions::truncate] (o: &mut std::fs::OpenOptions, b: bool) -> (r: &mut std::fs::OpenOptions)
    ensures oo(r) == (OOFlags { truncate: b, ..oo(old(o)) }), *final(o) == *final(r);
pub assume_specification [std::fs::OpenOptions::append] (o: &mut std::fs::OpenOptions, b: bool) -> (r: &mut std::fs::OpenOptions)
    ensures oo(r) == (OOFlags { append: b, ..oo(old(o)) }), *final(o) == *final(r);
// opening never fails spuriously (the file exists or `create` is set -- assumption); a handle opened for plain
// read+write (no append) starts at offset 0 on the file's disk content, emptied first iff write+truncate were requested
pub assume_specification<P: AsRef<Path>> [std::fs::OpenOptions::open] (o: &std::fs::OpenOptions, path: P) -> (r: Result<File, IoError>)
    ensures r is Ok,
        fview(&r->Ok_0).id == pid(&path),
        fview(&r->Ok_0).data == (if oo(o).write && oo(o).truncate && !oo(o).append { Seq::<u8>::empty() } else { disk(pid(&path)) }),
        !oo(o).append ==> fview(&r->Ok_0).pos == 0;
// a duplicated handle shows the same file (and shares the cursor with the original -- contracts never rely on cursors)
pub assume_specification [File::try_clone] (f: &File) -> (r: Result<File, IoError>)
    ensures r is Ok, fview(&r->Ok_0).id == fview(f).id, fview(&r->Ok_0).data == fview(f).data;
// error values are opaque; constructing one has no effect the contracts speak about (transformation 12 target)
#[verifier::external_body] pub fn io_other(s: String) -> IoError { unimplemented!() }
