// ================= ASSUMED: ckb_rational::RationalU256 as a non-negative rational number =================
// rep(q, n, d) reads "d > 0 and q is the fraction n/d" (a fraction has many representatives).  The contracts below are the
// definitions of the library's constructor, `+` and `<` on fractions, stated for every representative of the operands;
// 256-bit overflow inside the library is NOT modelled.
#[verifier::external_body] pub struct RationalU256 { _x: [u64; 8] }
pub uninterp spec fn rep(q: &RationalU256, n: nat, d: nat) -> bool;
impl From<u64> for U256 { #[verifier::external_body] fn from(v: u64) -> (r: U256) ensures uval(&r) == v { unimplemented!() } }
impl RationalU256 {
    #[verifier::external_body] pub fn zero() -> (r: RationalU256) ensures rep(&r, 0, 1) { unimplemented!() }
    // PRECONDITION: the real constructor panics on a zero denominator
    #[verifier::external_body] pub fn new(numer: U256, denom: U256) -> (r: RationalU256)
        requires uval(&denom) > 0
        ensures rep(&r, uval(&numer), uval(&denom)) { unimplemented!() }
}
impl vstd::std_specs::ops::AddSpecImpl<U256> for RationalU256 {
    open spec fn obeys_add_spec() -> bool { false }
    open spec fn add_req(self, rhs: U256) -> bool { true }
    open spec fn add_spec(self, rhs: U256) -> RationalU256 { arbitrary() }
}
impl ::core::ops::Add<U256> for RationalU256 {
    type Output = RationalU256;
    #[verifier::external_body] fn add(self, rhs: U256) -> (r: RationalU256)
        ensures forall|n: nat, d: nat| #[trigger] rep(&self, n, d) ==> rep(&r, n + uval(&rhs) * d, d) { unimplemented!() }
}
impl vstd::std_specs::ops::AddSpecImpl<RationalU256> for RationalU256 {
    open spec fn obeys_add_spec() -> bool { false }
    open spec fn add_req(self, rhs: RationalU256) -> bool { true }
    open spec fn add_spec(self, rhs: RationalU256) -> RationalU256 { arbitrary() }
}
impl ::core::ops::Add<RationalU256> for RationalU256 {
    type Output = RationalU256;
    #[verifier::external_body] fn add(self, rhs: RationalU256) -> (r: RationalU256)
        ensures forall|n1: nat, d1: nat, n2: nat, d2: nat| #[trigger] rep(&self, n1, d1) && #[trigger] rep(&rhs, n2, d2) ==> rep(&r, n1 * d2 + n2 * d1, d1 * d2) { unimplemented!() }
}
impl PartialEq for RationalU256 { #[verifier::external_body] fn eq(&self, o: &RationalU256) -> (r: bool) { unimplemented!() } }
impl PartialOrd for RationalU256 {
    #[verifier::external_body] fn partial_cmp(&self, o: &RationalU256) -> (r: Option<Ordering>) { unimplemented!() }
    #[verifier::external_body] fn lt(&self, o: &RationalU256) -> (r: bool)
        ensures forall|n1: nat, d1: nat, n2: nat, d2: nat| #[trigger] rep(self, n1, d1) && #[trigger] rep(o, n2, d2) ==> r == (n1 * d2 < n2 * d1) { unimplemented!() }
    #[verifier::external_body] fn le(&self, o: &RationalU256) -> (r: bool)
        ensures forall|n1: nat, d1: nat, n2: nat, d2: nat| #[trigger] rep(self, n1, d1) && #[trigger] rep(o, n2, d2) ==> r == (n1 * d2 <= n2 * d1) { unimplemented!() }
    #[verifier::external_body] fn gt(&self, o: &RationalU256) -> (r: bool)
        ensures forall|n1: nat, d1: nat, n2: nat, d2: nat| #[trigger] rep(self, n1, d1) && #[trigger] rep(o, n2, d2) ==> r == (n1 * d2 > n2 * d1) { unimplemented!() }
    #[verifier::external_body] fn ge(&self, o: &RationalU256) -> (r: bool)
        ensures forall|n1: nat, d1: nat, n2: nat, d2: nat| #[trigger] rep(self, n1, d1) && #[trigger] rep(o, n2, d2) ==> r == (n1 * d2 >= n2 * d1) { unimplemented!() }
}
