// ---------- specification taken from the property statement (C06/C07): an epoch amount `total` is split over
// `len` blocks, every block gets total/len and the first total%len blocks one extra shannon ----------
pub open spec fn sched(total: nat, len: nat, k: nat) -> nat
    recommends len > 0
{
    total / len + if k < total % len { 1nat } else { 0nat }
}
pub open spec fn sched_sum(total: nat, len: nat, n: nat) -> nat
    decreases n
{
    if n == 0 { 0 } else { sched_sum(total, len, (n - 1) as nat) + sched(total, len, (n - 1) as nat) }
}
proof fn lemma_sched_prefix(total: nat, len: nat, n: nat)
    requires len > 0, n <= len
    ensures sched_sum(total, len, n) == (total / len) * n + if n <= total % len { n } else { total % len }
    decreases n
{
    if n > 0 {
        lemma_sched_prefix(total, len, (n - 1) as nat);
        let q = (total / len) as int; let ni = n as int;
        assert(q * ni == q * (ni - 1) + q) by(nonlinear_arith);
        assert(sched_sum(total, len, n) == sched_sum(total, len, (n - 1) as nat) + sched(total, len, (n - 1) as nat));
        assert((total / len) * n == q * ni);
        assert((total / len) * ((n - 1) as nat) == q * (ni - 1));
    } else {
        assert((total / len) * n == 0) by(nonlinear_arith) requires n == 0;
    }
}
// C07 clause: "block rewards inside an epoch sum exactly to the epoch's scheduled issuance"
proof fn lemma_sched_total(total: nat, len: nat)
    requires len > 0
    ensures sched_sum(total, len, len) == total
{
    lemma_sched_prefix(total, len, len);
    assert(total % len < len) by(nonlinear_arith) requires len > 0;
    assert(total == (total / len) * len + total % len) by(nonlinear_arith) requires len > 0;
}
