// ASSUMED: molecule Byte32 is an opaque value; Clone returns an equal value
pub mod packed {
    #[allow(unused_imports)]
    use super::*;
    #[verifier::external_body]
    pub struct Byte32 { _b: [u8; 32] }
}
pub use packed::Byte32;
impl Clone for packed::Byte32 {
    #[verifier::external_body]
    fn clone(&self) -> (r: Self) ensures r == *self { unimplemented!() }
}
