// Iterator adapters modelled by the ghost sequence they will yield (ASSUMED laws of the std adapters iter / skip / flat_map):
// the real iterator-chain text is kept and type-checks against these opaque types, so WHICH elements a chain lists is decided.
#[verifier::external_body] #[verifier::accept_recursive_types(T)] pub struct SIter<T> { _p: ::core::marker::PhantomData<T> }
impl<T> SIter<T> { pub uninterp spec fn sq(&self) -> Seq<T>; }
impl<T> Iterator for SIter<T> { type Item = T; #[verifier::external_body] fn next(&mut self) -> (r: Option<T>) { unimplemented!() } }
// concatenation of g over a sequence, left to right
pub open spec fn cat<T, I>(s: Seq<T>, g: spec_fn(T) -> Seq<I>) -> Seq<I> decreases s.len() {
    if s.len() == 0 { Seq::empty() } else { cat(s.drop_last(), g) + g(s.last()) }
}
impl<T> SIter<T> {
    #[verifier::external_body] pub fn skip(self, n: usize) -> (r: SIter<T>) ensures r.sq() == (if n <= self.sq().len() { self.sq().skip(n as int) } else { Seq::<T>::empty() }) { unimplemented!() }
    // flat_map: if the closure's result for x always yields g(x), the whole yields the concatenation of g over the elements
    #[verifier::external_body] pub fn flat_map<I, F: FnMut(T) -> SIter<I>>(self, f: F) -> (r: SIter<I>)
        requires forall|x: T| call_requires(f, (x,)),
        ensures forall|g: spec_fn(T) -> Seq<I>| (forall|x: T, u: SIter<I>| #[trigger] call_ensures(f, (x,), u) ==> u.sq() == g(x)) ==> r.sq() == #[trigger] cat(self.sq(), g) { unimplemented!() }
}
// ASSUMED: what a `for` loop / a drain over this iterator visits is its ghost sequence
#[verifier::external_body] pub broadcast proof fn ax_yields_siter<T>(it: &SIter<T>) ensures #[trigger] yields(it) == it.sq() {}
impl<T> SIter<T> {
    // map: if the closure's result for x is always g(x), the whole yields g over the elements
    #[verifier::external_body] pub fn map<U, F: FnMut(T) -> U>(self, f: F) -> (r: SIter<U>)
        requires forall|x: T| call_requires(f, (x,)),
        ensures forall|g: spec_fn(T) -> U| (forall|x: T, u: U| #[trigger] call_ensures(f, (x,), u) ==> u == g(x)) ==> r.sq() == #[trigger] self.sq().map_values(g) { unimplemented!() }
    #[verifier::external_body] pub fn collect<B: FromSeq<T>>(self) -> (r: B) ensures B::is_from(self.sq(), &r) { unimplemented!() }
}
// what `collect()` builds from the yielded sequence
pub trait FromSeq<T>: Sized { spec fn is_from(s: Seq<T>, r: &Self) -> bool; }
impl<T> FromSeq<T> for Vec<T> { open spec fn is_from(s: Seq<T>, r: &Self) -> bool { r@ == s } }
