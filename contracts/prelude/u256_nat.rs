// ================= ASSUMED: numext U256 as natural numbers =================
// uval(u) is the mathematical value.  Arithmetic contracts are the mathematical operations; 256-bit overflow of `*` / `+`
// is NOT modelled (stated per obligation); comparison is the order of the values; equal values are equal U256s.
#[verifier::external_body] pub struct U256 { _x: [u64; 4] }
pub uninterp spec fn uval(u: &U256) -> nat;
#[verifier::external_body]
pub broadcast proof fn axiom_u256_ext(a: &U256, b: &U256)
    ensures #[trigger] uval(a) == #[trigger] uval(b) ==> *a == *b
{}
impl Clone for U256 {
    #[verifier::external_body]
    fn clone(&self) -> (r: Self) ensures r == *self { unimplemented!() }
}
impl<'a> vstd::std_specs::ops::MulSpecImpl<u64> for &'a U256 {
    open spec fn obeys_mul_spec() -> bool { false }
    open spec fn mul_req(self, rhs: u64) -> bool { true }
    open spec fn mul_spec(self, rhs: u64) -> U256 { arbitrary() }
}
impl<'a> vstd::std_specs::ops::DivSpecImpl<u64> for &'a U256 {
    open spec fn obeys_div_spec() -> bool { false }
    open spec fn div_req(self, rhs: u64) -> bool { true }
    open spec fn div_spec(self, rhs: u64) -> U256 { arbitrary() }
}
impl<'a> ::core::ops::Mul<u64> for &'a U256 {
    type Output = U256;
    #[verifier::external_body]
    fn mul(self, rhs: u64) -> (r: U256) ensures uval(&r) == uval(self) * rhs as nat { unimplemented!() }
}
impl<'a> ::core::ops::Div<u64> for &'a U256 {
    type Output = U256;
    #[verifier::external_body]
    fn div(self, rhs: u64) -> (r: U256) ensures rhs > 0 ==> uval(&r) == uval(self) / rhs as nat { unimplemented!() }
}
impl U256 {
    #[verifier::external_body] pub fn zero() -> (r: U256) ensures uval(&r) == 0 { unimplemented!() }
    #[verifier::external_body] pub fn one() -> (r: U256) ensures uval(&r) == 1 { unimplemented!() }
}
impl PartialEq for U256 { #[verifier::external_body] fn eq(&self, o: &U256) -> (r: bool) ensures r == (uval(self) == uval(o)) { unimplemented!() } }
impl vstd::std_specs::cmp::PartialEqSpecImpl for U256 {
    open spec fn obeys_eq_spec() -> bool { true }
    open spec fn eq_spec(&self, o: &U256) -> bool { uval(self) == uval(o) }
}
impl PartialOrd for U256 {
    #[verifier::external_body] fn partial_cmp(&self, o: &U256) -> (r: Option<Ordering>) ensures r == Some(if uval(self) < uval(o) { Ordering::Less } else if uval(self) == uval(o) { Ordering::Equal } else { Ordering::Greater }) { unimplemented!() }
    #[verifier::external_body] fn lt(&self, o: &U256) -> (r: bool) ensures r == (uval(self) < uval(o)) { unimplemented!() }
    #[verifier::external_body] fn gt(&self, o: &U256) -> (r: bool) ensures r == (uval(self) > uval(o)) { unimplemented!() }
    #[verifier::external_body] fn le(&self, o: &U256) -> (r: bool) ensures r == (uval(self) <= uval(o)) { unimplemented!() }
    #[verifier::external_body] fn ge(&self, o: &U256) -> (r: bool) ensures r == (uval(self) >= uval(o)) { unimplemented!() }
}
