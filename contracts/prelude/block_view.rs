// ================= ASSUMED: ckb-types BlockView / packed::Block as opaque records with total accessors =================
#[verifier::external_body] pub struct BlockView { _x: u64 }
#[verifier::external_body] pub struct PackedBlock { _x: u64 }
#[verifier::external_body] pub struct PackedProposalShortIdVec { _x: u64 }
impl PartialEq for Byte32 {
    #[verifier::external_body] fn eq(&self, o: &Byte32) -> (r: bool) ensures r == (*self == *o) { unimplemented!() }
}
impl vstd::std_specs::cmp::PartialEqSpecImpl for Byte32 {
    open spec fn obeys_eq_spec() -> bool { true }
    open spec fn eq_spec(&self, o: &Byte32) -> bool { *self == *o }
}
pub uninterp spec fn b_is_genesis(b: &BlockView) -> bool;
pub uninterp spec fn b_data(b: &BlockView) -> PackedBlock;
pub uninterp spec fn b_header(b: &BlockView) -> HeaderView;
pub uninterp spec fn b_transactions_root(b: &BlockView) -> Byte32;
pub uninterp spec fn b_calc_transactions_root(b: &BlockView) -> Byte32;
pub uninterp spec fn b_proposals_hash(b: &BlockView) -> Byte32;
pub uninterp spec fn b_calc_proposals_hash(b: &BlockView) -> Byte32;
pub uninterp spec fn pb_proposals(b: &PackedBlock) -> PackedProposalShortIdVec;
pub uninterp spec fn pb_size_without_uncle_proposals(b: &PackedBlock) -> usize;   // the size the consensus rule counts
pub uninterp spec fn pb_total_size(b: &PackedBlock) -> usize;                     // full serialized size (includes uncles' proposals)
pub uninterp spec fn pv_len(v: &PackedProposalShortIdVec) -> usize;
impl BlockView {
    #[verifier::external_body] pub fn is_genesis(&self) -> (r: bool) ensures r == b_is_genesis(self) { unimplemented!() }
    #[verifier::external_body] pub fn data(&self) -> (r: PackedBlock) ensures r == b_data(self) { unimplemented!() }
    #[verifier::external_body] pub fn header(&self) -> (r: HeaderView) ensures r == b_header(self) { unimplemented!() }
    #[verifier::external_body] pub fn transactions_root(&self) -> (r: Byte32) ensures r == b_transactions_root(self) { unimplemented!() }
    #[verifier::external_body] pub fn calc_transactions_root(&self) -> (r: Byte32) ensures r == b_calc_transactions_root(self) { unimplemented!() }
    #[verifier::external_body] pub fn proposals_hash(&self) -> (r: Byte32) ensures r == b_proposals_hash(self) { unimplemented!() }
    #[verifier::external_body] pub fn calc_proposals_hash(&self) -> (r: Byte32) ensures r == b_calc_proposals_hash(self) { unimplemented!() }
}
impl PackedBlock {
    #[verifier::external_body] pub fn proposals(&self) -> (r: PackedProposalShortIdVec) ensures r == pb_proposals(self) { unimplemented!() }
    #[verifier::external_body] pub fn serialized_size_without_uncle_proposals(&self) -> (r: usize) ensures r == pb_size_without_uncle_proposals(self) { unimplemented!() }
    #[verifier::external_body] pub fn total_size(&self) -> (r: usize) ensures r == pb_total_size(self) { unimplemented!() }
}
impl PackedProposalShortIdVec {
    #[verifier::external_body] pub fn len(&self) -> (r: usize) ensures r == pv_len(self) { unimplemented!() }
}
